#!/venv/bin/python
"""entry point of every check: run_check.py <ID> [--tier quick|thorough] [--replay FILE]"""
import os
import sys

sys.path.insert(0, os.path.dirname(os.path.abspath(__file__)))

from sim.runner import main  # noqa: E402

if __name__ == '__main__':
    sys.exit(main())
