#!/bin/bash
# determinism self-test of every claimed check (same seeds at 16 and 5 workers in fresh interpreters,
# twice in one process, tape replay)
for id in C04 C05 C06 C07 C08 C10 C11 C12 C13 C14 C15 C16 C17 C18 C19 C20; do
  n=200; [ $id = C17 ] && n=40
  /venv/bin/python selftest/determinism.py $id $n 2>&1 | tail -4
done
