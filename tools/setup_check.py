#!/venv/bin/python
"""MANIFEST.setup_cmd: nothing to build -- verify interpreter, dependencies and that the
simulator can import frappy from /repo's working tree behind its seams"""
import os
import subprocess
import sys

VERIF = os.path.dirname(os.path.dirname(os.path.abspath(__file__)))
env = dict(os.environ, PYTHONHASHSEED='0', TZ='UTC', PYTHONDONTWRITEBYTECODE='1')
code = ("import sys; sys.path.insert(0, %r); from sim import env, kernel; import frappy, mlzlog; "
        "print('frappy from', frappy.__file__)" % VERIF)
sys.exit(subprocess.run([sys.executable, '-c', code], env=env, check=False).returncode)
