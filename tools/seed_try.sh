#!/bin/bash
# usage: tools/seed_try.sh <ID> <name> [worktree] [extra run_check args]
# 1. (if a worktree is given) confirm the seeded change in the scratch worktree:
#    demo exits 1 with the change and 0 without it, the 301 pinned tests still pass;
#    store patch.diff + demo under /verif/seeded/<name>/
#    (VERIFY_ONLY=1: stop here)
# 2. apply the patch to /repo, run the check, undo the patch straight afterwards.
set -u
ID=$1; NAME=$2; WT=${3:-}; shift; shift; [ $# -gt 0 ] && shift
EXTRA="$*"
D=/verif/seeded/$NAME
mkdir -p $D
if [ -n "$WT" ]; then
  git -C $WT diff -- frappy frappy_demo frappy_mlz frappy_psi cfg > $D/patch.diff
  cp $WT/demo_$ID.py $D/demo_$ID.py
  ( cd $WT && timeout 120 /venv/bin/python demo_$ID.py > $D/demo_with.txt 2>&1; echo "exit=$?" >> $D/demo_with.txt )
  git -C $WT checkout -- .
  ( cd $WT && timeout 120 /venv/bin/python demo_$ID.py > $D/demo_without.txt 2>&1; echo "exit=$?" >> $D/demo_without.txt )
  git -C $WT apply $D/patch.diff
  ( cd $WT && timeout 900 /venv/bin/python -m pytest -q -p no:cacheprovider --timeout=900 --continue-on-collection-errors 2>&1 | tail -1 > $D/tests_with.txt )
  echo "demo with: $(tail -1 $D/demo_with.txt)  without: $(tail -1 $D/demo_without.txt)  tests: $(cat $D/tests_with.txt)"
fi
[ -n "${VERIFY_ONLY:-}" ] && exit 0
if [ -n "$(git -C /repo status --porcelain)" ]; then echo "/repo not clean"; exit 3; fi
git -C /repo apply $D/patch.diff || exit 3
start=$(date +%s)
timeout 1800 /venv/bin/python /verif/run_check.py $ID --tier quick --no-evidence --replay-dir $D/replays $EXTRA > $D/check_output.txt 2>&1
rc=$?
git -C /repo checkout -- .
echo "check $ID exit=$rc in $(( $(date +%s) - start ))s"
grep -E "^(VIOLATION|KNOWN-FINDING|HARNESS)" $D/check_output.txt | cut -c1-220 | head -8
