#!/usr/bin/env python3
"""write /verif/seeded/<name>/meta.json and regenerate /verif/seeded/README.md
usage: seed_meta.py <name> <property> "<what it needs to manifest>" ["<note on check changes>" ["<superseded: why>"]]
       seed_meta.py --readme"""
import glob
import json
import os
import re
import sys

ROOT = '/verif/seeded'


def result_of(d):
    out = open(os.path.join(d, 'check_output.txt'), errors='replace').read()
    viol = re.findall(r'^VIOLATION property=(\S+) replay=(\S+)', out, re.M)
    summary = re.findall(r'^(C\d\d \w+: \d+ runs in .*)$', out, re.M)
    sigs = []
    for _p, path in viol:
        m = re.search(r'/C\d\d-\d+-(.*)\.json$', path)
        if m:
            sigs.append(m.group(1))
    return {'caught': bool(viol), 'violations': sigs, 'summary': summary[-1] if summary else None}


def tail(path):
    try:
        return open(path, errors='replace').read().strip().splitlines()[-1]
    except (OSError, IndexError):
        return None


def readme():
    rows = []
    for mf in sorted(glob.glob(os.path.join(ROOT, '*', 'meta.json'))):
        m = json.load(open(mf))
        rows.append(m)
    with open(os.path.join(ROOT, 'README.md'), 'w') as f:
        f.write('# Seeded changes\n\n'
                'Each directory holds one realistic breaking change written by a fresh sub-agent that was given only\n'
                'the text of the property and a scratch worktree of /repo (nothing from /verif): `patch.diff` (the\n'
                'change, never committed to /repo), `demo_<ID>.py` (its own demonstration: exit 1 with the change, exit 0\n'
                'without), `meta.json`, the output of the demonstration with and without the change, the test-suite\n'
                'summary line with the change, `check_output.txt` (output of the quick check with the change applied to\n'
                '/repo) and `replays/` (the minimised replay files that check wrote).\n\n'
                'To re-run: `tools/seed_try.sh <ID> <name>` (applies the patch to /repo, runs the quick check, undoes the\n'
                'patch).\n\n'
                '| name | property | file changed | caught by quick check | violation signatures | first result / what was strengthened |\n'
                '|---|---|---|---|---|---|\n')
        for m in rows:
            f.write(f"| {m['name']} | {m['property']} | {', '.join(m['files'])} | {('n/a: ' + m['superseded']) if m.get('superseded') else ('NO: ' + m['not_caught']) if m.get('not_caught') else 'yes' if m['check']['caught'] else 'NO'} | "
                    f"{'; '.join(m['check']['violations'][:4])} | {m.get('note', '')} |\n")
        f.write('\n## What each change needs to manifest\n\n')
        for m in rows:
            f.write(f"* **{m['name']}** ({m['property']}): {m['needs']}\n")


def main():
    if sys.argv[1] == '--readme':
        readme()
        return
    name, prop, needs = sys.argv[1:4]
    note = sys.argv[4] if len(sys.argv) > 4 else ''
    superseded = sys.argv[5] if len(sys.argv) > 5 else None     # the change no longer breaks the property (why)
    d = os.path.join(ROOT, name)
    patch = open(os.path.join(d, 'patch.diff')).read()
    files = re.findall(r'^\+\+\+ b/(\S+)', patch, re.M)
    meta = {
        'name': name, 'property': prop, 'files': files,
        'origin': 'fresh sub-agent given only the property text and a scratch git worktree of /repo',
        'needs': needs,
        'demo': {'command': f'cd <worktree> && /venv/bin/python demo_{prop}.py',
                 'with_change': tail(os.path.join(d, 'demo_with.txt')),
                 'without_change': tail(os.path.join(d, 'demo_without.txt'))},
        'tests_with_change': tail(os.path.join(d, 'tests_with.txt')),
        'what_was_run': [f'demo_{prop}.py in the scratch worktree with and without the change',
                         'the pinned test suite in the scratch worktree with the change '
                         '(/venv/bin/python -m pytest -q -p no:cacheprovider --timeout=900 --continue-on-collection-errors)',
                         f'git -C /repo apply patch.diff; /venv/bin/python /verif/run_check.py {prop} --tier quick '
                         f'--no-evidence; git -C /repo checkout -- .'],
        'check': result_of(d),
        'note': note,
    }
    if superseded:
        meta['superseded'] = superseded
    try:
        old = json.load(open(os.path.join(d, 'meta.json')))
        if old.get('checked_by'):
            meta['checked_by'] = old['checked_by']      # the check of another property catches it (set by hand)
        if old.get('not_caught'):
            meta['not_caught'] = old['not_caught']      # a recorded miss (set by hand)
    except (OSError, ValueError):
        pass
    with open(os.path.join(d, 'meta.json'), 'w') as f:
        json.dump(meta, f, indent=1)
        f.write('\n')
    readme()


main()
