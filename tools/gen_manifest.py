#!/venv/bin/python
"""writes MANIFEST.json from the table below (kept by hand, validated against the schema)"""
import json
import os

VERIF = os.path.dirname(os.path.dirname(os.path.abspath(__file__)))
PY = '/venv/bin/python'

TECH = 'deterministic simulation with fault injection: seeded schedule/fault search over real frappy threads'

CLAIMED = {
    'C13': dict(
        level='exploration',
        text='Seeded search over generated module sets (own or shared poll thread, optionally a module with enablePoll = '
             'False and a configured start-up write on the shared thread, which must never be polled), read-duration/'
             'failure scripts (incl. TimeoutSECoPError/NotImplementedSECoPError), run-time interval changes (optionally with another, failing subscriber of the interval), '
             'immediate triggers (also back to back) and clock jumps; the real poll thread body runs in virtual time under the '
             'deterministic scheduler and the recorded call log is checked against staleness/starvation bounds. '
             'Sampling, not proof: a clean batch is evidence.',
        note='Trusted: the simulation kernel (baton-passing real threads, virtual clock), the scripted drivers, '
             'the bound sweep := sum of the longest scripted main polls + the longest slow read. Pre-emption at '
             'lock operations and (in part of the runs) at line events of frappy/modulebase.py.',
        design='6/C13'),
}

CLAIMED['C08'] = dict(
    level='exploration',
    text='Seeded search over activate/deactivate/*IDN?/close sequences (global, module, parameter scopes) on 1..3 '
         'real TCPRequestHandler connections racing poll threads and extra driver tasks at lock operations and at '
         'line events of dispatcher.py/modulebase.py; each connection\'s line stream is judged against the ground-truth '
         'history of the parameter cache (snapshot completeness and currency, last message = cache at quiescence, '
         'values stamped by a lagging device clock, optionally failing application callbacks on the parameters (functions, partial objects, callable instances), optionally a client which stops reading for seconds behind a small receive buffer while updates flow (a send of the node may time out: the connection is then either served or closed), '
         'no cache state skipped while a parameter stays in scope, nothing after the scope-ending reply, no cross-talk, '
         'nothing left in the dispatcher of a connection whose handler has finished; a run which cannot end because '
         'a request is never answered is a violation).',
    note='Trusted: simulation kernel, simulated TCP, the cache history taken from parameter callbacks (invoked by '
         'frappy inside the update lock). Two in-flight races of broadcast_event are known findings (known_findings.json).',
    design='6/C08')

CLAIMED['C05'] = dict(
    level='exploration',
    text='Seeded search over driver-side histories (reads ok/raising/invalid, writes, assignments equal/different/'
         'invalid (also the driver\'s own mutable receive buffer assigned to a blob; focus: one task re-assigning the value it finds while another one changes the same parameter at the same instant), values stamped by a coarse device clock, explicit and repeated error announcements, gaps below/above '
         'the suppression window) from 1..3 '
         'tasks against generated parameters of all datatypes (64 bit integers, strings with lone surrogates as '
         'surrogateescape decoding gives them) and all omit_unchanged_within/update_unchanged settings. Judged (i) against a register model fed from the operations and (ii) by replaying the byte stream '
         'of every activated connection (one activated on the quiet node, 0..2 more from the start, optionally one '
         'activating in the middle of the history; optionally application callbacks on the parameters which fail now '
         'and then, registered as functions, partial objects or callable instances) against the ground-truth cache history (order, no phantom state, '
         'no state skipped, final = cache).',
    note='Trusted: simulation kernel, fake driver, register model (value/error effect per operation), cache history '
         'from parameter callbacks. With several tasks the final entry must match an operation that may have been last.',
    design='6/C05')

CLAIMED['C07'] = dict(
    level='exploration',
    text='Seeded search over grammar-generated and byte-mutated request streams, explicit cut positions plus network '
         'segmentation/latency and receive time-outs inside lines, with a second (activated/logging) connection, '
         'further connections which activate and leave again while the requests are handled, optionally a peer which '
         'asks for events and never reads, and '
         'poll threads writing concurrently; real TCPRequestHandler + Dispatcher. Checked: one reply line per request '
         'line in order, reply action/error_<action> with known error class, specifier echo, UTF-8 + strict JSON on '
         'every line, whole lines under concurrent senders, handler alive, no leak to the other connection, answers '
         'to unmutated lines equal those of a reference node, codec inverse on every triple seen.',
    note='Trusted: simulation kernel, simulated TCP, the wire parser. Not exhaustive over segmentations (sampled '
         'cut positions); requests whose action is update/log/_ are skipped (their error reply is '
         'indistinguishable from an asynchronous message).',
    design='6/C07')

CLAIMED['C04'] = dict(
    level='exploration',
    text='Seeded search over generated module classes (all datatypes, readonly/constant/export flags - read-only also with '
         'a write method for internal use or by configuration -, limit '
         'parameters, check hooks, commands) and change/do request sequences from 1..3 concurrent wire clients with '
         'payloads from the boundary catalogue of the described datainfo (incl. NaN/Infinity), while limits are moved '
         '(by wire requests and, in part of the runs, by a driver-side thread through the write methods of the limit '
         'parameters) and pollers run; in part of the runs a struct parameter is brought into an error state (failing '
         'reads, read requests) between partial changes of it; a rider module with a StructParam, a combined write method and a check hook on the struct gets requests addressed to the struct, to a part of it and to single member parameters (judged against a small model). '
         'Every driver call in the recorded log must be attributable to exactly one request that an independent '
         'three-valued reference validator does not reject, with the canonical value, within the limits in force; '
         'every must-reject request gets an error of a fitting class and leaves cache and update stream untouched.',
    note='Trusted: simulation kernel, the reference validator sim.dtgen.classify (DONTCARE = documented leniencies), '
         'request/driver-call attribution by handler task and request window. Limits in force are replayed from the '
         'accepted limit changes; overlapping limit changes make the verdict DONTCARE. Independently of that every '
         'write call is judged against the limits snapshot the fake driver takes at the call (checks, limit changes '
         'through write methods and the driver call all run under the access lock of the module).',
    design='6/C04')

CLAIMED['C11'] = dict(
    level='exploration',
    text='Seeded search over 2..4 caller threads x request mixes (equal/distinct keys, unknown actions, unique id per '
         'request) against a scripted SECoP peer (reply order and delay up to beyond the time-out, error replies, '
         'updates and error updates, streamed updates of an active node, unsolicited replies, garbage, half lines, replies written in two '
         'pieces with a pause, a peer which takes only 12..24 bytes at a time) with peer '
         'close/reset (shutdown() of a reset socket fails with ENOTCONN as on Linux)/black hole, refused reconnects '
         'and user disconnect at arbitrary points, pre-empting the real SecopClient/AsynTcp threads at lock '
         'operations and line events of client/__init__.py. Checked per caller: own reply or error, no duplicate '
         'delivery, wait bounded, no reconnect by the client after a shutdown by the user, no request left untransmitted once every request with the same key was answered, '
         'release with a connection error on loss and on a shutdown by the user; disconnect() returns without raising, '
         'no worker thread left.',
    note='Trusted: simulation kernel, simulated TCP, scripted peer. Replies sent after the owner gave up and unknown '
         'actions mixed with unsolicited replies are exempt (SECoP has no request ids), also down a chain of '
         'displaced replies that starts at such a late reply. Known findings: the '
         'connect()/disconnect() races after a second connection (known_findings.json).',
    design='6/C11')

CLAIMED['C12'] = dict(
    level='exploration',
    text='Seeded search in three worlds: (peer) generated descriptions and message sequences (update/error_update/'
         'reply/changed/error_read, unknown parameters, module shorthand, malformed messages, future timestamps) with '
         'callback (un)registration at node/module/parameter level incl. raising and one-shot callbacks, ordered against '
         'the rx thread by sync markers, optionally a restart of the peer with another description (module added, '
         'accessible changed) which the client meets by reconnecting on its own; (e2e) real client <-> real node with recording drivers, '
         'setParameter/getParameter/execCommand over generated parameters of every datatype (incl. integers beyond '
         '2**53), an accepting side which takes only 16..40 bytes at a time, writes which the node refuses (read-only parameters: the cache must keep what the last message said), structs with optional members left out at any depth, two concurrent writers through one client; (proxy) the same through '
         'a real node of frappy.proxy modules, with a connection drop; in both while the drivers of the node publish '
         'values of their own (second sender on the connection). Cache = import of the last message, timestamp '
         'never in the future, each callback exactly once per message in order, driver argument = caller value, '
         'cache = driver return value; at quiescence client cache = node cache and no message was unreadable.',
    note='Trusted: simulation kernel, scripted peer, fake driver, the harness\' own wire<->python conversion. Proxy '
         'world: commands with tuple/struct arguments are left out (frappy.proxy cannot forward them) and reads are not '
         'judged (a proxy answers reads from its update cache).',
    design='6/C12')

CLAIMED['C16'] = dict(
    level='exploration',
    text='Seeded search over 2..4 caller tasks (communicate, writeline, multicomm with delays) plus the poll thread '
         'against real StringIO/BytesIO + AsynTcp and a scripted device (token echo, reply delays up to beyond the '
         'time-out, unsolicited messages in segments of their own or in the segment of a reply, incomplete messages '
         'followed by silence, close before/inside/after a reply, refused reconnects; LF or CR LF lines, fixed or '
         'variable-length byte replies; optionally a reconnect callback which talks to the device, optionally a slow state callback), with network chunking and '
         'pre-emption at lock operations and line events of io.py/asynconn.py. Checked: own reply per command (stale = '
         'read from the socket before the command left, judged on the byte stream by the event number of the recv), '
         'communicator lock (no overlapping in-flight windows, no foreign command '
         'inside a multicomm), delays honoured (also the one after the last command of a transaction), failures are communication errors within the time-out bound, every call '
         'returns (a run that cannot end with a call open is a violation), a command without reply issued long after the device dropped the idle line fails instead of vanishing, reconnect rate of callers (dated by the '
         'moment the rate limiter was consulted), reconnect callbacks exactly once per reconnect, healing and poll resumption after faults stop.',
    note='Trusted: simulation kernel, simulated TCP, scripted device. Bytes arriving after a command was sent cannot '
         'be told from its reply by any implementation and are exempt. Known finding: is_connected set after a '
         'concurrent close.',
    design='6/C16')

CLAIMED['C17'] = dict(
    level='fault_enumeration',
    text='For every generated module (persistent parameters of all datatypes, auto/explicit saving, with/without write '
         'method, writable or read-only, '
         'configured values) and operation history (set, assign, save, load, factory reset, restart - in 60 % of the cases inside the process, i.e. with the parameter sections of the configuration kept in memory) the real '
         'PersistentMixin is re-run once for EVERY file-system operation of every step x {error, torn write, crash '
         'before / after / inside} under two write models (unbuffered, buffered until close) - exhaustive per history; '
         'the stored file is corrupted by truncation at every byte, sampled bit flips, type/key changes, per-datatype '
         'outdated entries (struct member missing/unknown, out of range, wrong length, ...) and an unreadable file; in part of the cases 2..3 threads first change persistent parameters at the same time (every file operation a scheduling point, the file a complete snapshot after each). After each crash the file must be the previous or the new complete snapshot and a restart from the '
         'directory must restore it (configuration wins); a failed save must be retried by the next save; corrupt '
         'files never prevent module creation and unusable entries fall back individually.',
    note='Trusted: sim.fs interposer (process-crash model: completed system calls survive), dispatcher/secnode stubs. '
         'Histories and datatypes are sampled (seeded), the fault placement per history is enumerated exhaustively; '
         'power loss without fsync is not judged. One fault per replay.',
    technique='deterministic simulation: exhaustive single-fault enumeration over interposed file operations per '
              'seeded operation history, crash-and-restart from durable state',
    design='6/C17')

CLAIMED['C19'] = dict(
    level='exploration',
    text='Seeded search over equipment ids / descriptions (ASCII, JSON escapes, multi-byte, lengths around the 508 byte '
         'budget), interface lists and datagram sequences from several peers (valid requests, other JSON values, invalid '
         'UTF-8 incl. the request text in UTF-16/UTF-32 or with a byte order mark, empty, oversized) with loss, duplication, reordering and truncation, against the real UDPListener '
         'running in its own task on a simulated datagram socket (part of the cases with an identity of exactly the '
         'budget +- 2 bytes). Every datagram sent must be a UTF-8 JSON object <= 508 '
         'bytes with the identity, a configured tcp port and a character-boundary prefix of the description; disabled '
         'only if the identity alone does not fit; answers iff discovery request; alive after every datagram. In part '
         'of the runs the responder is started by the real Server.run: the TCP interfaces are bound on the '
         'simulated network first (ports held by another listener for a while or for ever, real bind retries of '
         'TCPServer), and every announced port must be one the node really accepts connections on and answers '
         '*IDN? on - at the moment the datagram leaves, also while discovery requests keep arriving during the shutdown '
         'of the node and during a restart; datagrams between the answer budget and the receive size (broadcasts reach every socket bound to the port; log of when each listening port is open), and after a restart of the node.',
    note='Trusted: simulated UDP socket, simulated socketserver base class, constant firmware version. The budgeting clause is a pure function of the '
         'strings; it is checked as a rider of the simulated runs.',
    design='6/C19')

CLAIMED['C20'] = dict(
    level='exploration',
    text='Seeded search in two worlds: (routing) a real node with 1..3 wire connections issuing logging <module|.> '
         '<level> (valid/invalid), *IDN?, ping, activate/deactivate, close while emitter tasks, poll threads and request handlers log records '
         'of all levels carrying unique tokens - each connection must receive a record exactly when its level for that '
         'module admits it (records emitted inside a request window are DONTCARE), nothing after off/IDN/close, no '
         'cross-talk, a log call never raises; (rotation) the real LogfileHandler over a scratch directory with dated, '
         'foreign and sub-directory entries and symbolic links named like files of the handler, retention 0..5, clock jumps over 0..4 midnights and injected os.remove '
         'failures - after every rollover the file being written and the N-1 newest earlier files exist, only older '
         'own files are removed.',
    note='Trusted: simulation kernel, simulated TCP, virtual clock, sim.fs for os.scandir/os.remove of frappy.logging. '
         'A first record is written before the first midnight (mlzlog itself fails to roll over a handler that never '
         'wrote - third-party code, see DESIGN.md).',
    design='6/C20')

CLAIMED['C14'] = dict(
    level='exploration',
    text='Seeded search over generated state-function programs (next/Retry/Finish/self/non-callable/raise, cleanup '
         'returning none/chain/non-callable (truthy and falsy)/raising, maxloops 2..10) with a cycling task and a commanding task issuing '
         'start(state, cleanup, attributes)/stop between any two steps (state functions yield to the scheduler; line '
         'events of statemachine.py). Trace invariants: cycle never raises and is bounded, init flag exactly on the first '
         'call after each transition, every cleanup at most once, a cleanup sequence neither interrupted nor abandoned, '
         'starts take effect in issue order, the last stop/start wins with exactly its attributes once things are quiet. '
         'Second world: a HasStates Drivable in a real node driven over the wire (a stop accepted last - also during a stop cleanup of several cycles with a new start waiting - is not followed by a complete run; a run which ends while a start is waiting hands over with a busy status; busy status from the acknowledged '
         'change until the run ends, final/stopped/error status afterwards).',
    note='Trusted: simulation kernel, harness state functions, the transition hook as observation point. Module world: '
         'busy/final-status rules are judged for runs started on an idle machine without overlapping requests. Known '
         'finding: stop racing with the natural end leaves the status at "stopping".',
    design='6/C14')

CLAIMED['C15'] = dict(
    level='exploration',
    text='Seeded search over attachment graphs on 2..5 generated, instrumented modules (acyclic, cyclic, missing, wrongly '
         'typed, optional/empty, not configured), first-use phase per attachment (earlyInit, initModule, startModule, poll, '
         'shutdown, never), shuffled declaration order, Pinata with dynamic modules (first, in the middle or last; a '
         'configured module may be attached to a scanned one), attachments named io (polled by the thread of the '
         'attached module, chains included), shared communicator through uri, '
         'configured writes (also of a value equal to the default; one of them may fail once with a communication error), failing early/late initialisation, slow or hanging first polls, shutdown during a read '
         '(shorter and longer than the grace time), optionally a restart (shutdown, then the same configuration '
         'started again in the same process, judged like the first generation) - '
         'running the real Server._processCfg, start events, poll threads and SecNode.shutdown_modules. Event log rules: '
         'each phase exactly once and in order, attached module initialised before use, configuration errors reported, '
         'configured write before the first poll, ready only after the first round or the time-out, pollers stopped '
         'before any shutdownModule and no poll still in progress then unless the grace time ran out, users shut down before the modules they are attached to.',
    note='Trusted: simulation kernel, instrumented module classes. Graphs are sampled, not enumerated. A start-up that '
         'ends with a configuration error must not have started, polled or written anything (rule half-started).',
    design='6/C15')

CLAIMED['C10'] = dict(
    level='exploration',
    text='Seeded search over generated configuration FILES (Python DSL, 1..2 files merged) for generated module classes, '
         'run through the real Server constructor and _processCfg with poll threads under the scheduler: configured '
         'values of parameters with a write method must reach it exactly once, from the poll thread, before the first '
         'poll of that module; start values, overridden limits/unit/visibility/readonly/group must show in cache and '
         'description and limits must be used by later range checks (wire probes); with 0..3 injected errors (unknown '
         'name, unknown parameter property, wrong type, missing mandatory property, required value missing, inverted '
         'limits, bad module property, a value longer than the maxchars/maxbytes/maxlen given with it; the unit of the module given in the configuration with units of nested struct/tuple members relative to it; export=True given in the configuration (described and readable under that name); two modules of one class each with its own configuration; an optional parameter of a base class which the class of the module does not '
         'implement) start-up must end with the error report naming every failing module and no '
         'configured value may have reached any driver. In a quarter of the runs the node is restarted on the same '
         'loaded configuration (as Server.run does after Server.restart) and the second generation is judged.',
    note='Trusted: simulation kernel, fake driver, generated classes. The clauses "start value = converted configured '
         'value" and "description shows the overrides" are pure configuration->result statements checked as riders of '
         'the simulated start-up; the write-once-before-first-poll and rejected-whole clauses need the running node.',
    design='6/C10')

CLAIMED['C18'] = dict(
    level='exploration',
    text='Seeded search over generated layouts (StructParam with combined or member access methods, FloatEnumParam label '
         'sets, limit parameters min/max/limits (incl. limits of exactly zero), 1..3 HasOutputModule controllers on one HasControlledBy output, '
         'optionally a second output with a controller of its own; limit writes which take time, with a driver-side write of the limited value meanwhile) and '
         'operation histories issued alternately by a wire client and by the driver while the poll thread runs and up to two other clients subscribe and leave all the time, with '
         'one-shot hardware faults inside struct accesses and, where frappy establishes consistency inside the update '
         'lock, a concurrent driver-side assignment. After '
         'every operation: struct and members agree member by member and a write leaves the other members alone; the '
         'cached float value belongs to the cached index and a float write selects the closest allowed value; no value '
         'outside the limits in force reaches the driver and an inverted limits pair is refused; at most one controller '
         'is active, the output names exactly it, a take-over switches the previous one off, operations on one output '
         'leave the other output alone, a hand-over whose switch-off hook fails leaves the previous state; two clients handing the control to two controllers at the same instant (slow '
         'switching hook) leave exactly one of them in control.',
    note='Trusted: simulation kernel, generated classes with hardware registers. Operations of client and driver are '
         'issued one after the other (the invariants are quiescent-point invariants); the poll thread runs concurrently; '
         'the concurrent assignment is limited to index writes and to structs with combined access methods.',
    design='6/C18')

CLAIMED['C06'] = dict(
    level='exploration',
    text='Seeded search over nodes built from generated module classes (all datatypes, readonly/constant/export flags, '
         'commands, unexported modules, constants of every datatype declared in the class or given in the configuration '
         '(also non-finite), the export of single parameters given in the configuration, limits learnt in startModule, a module configured with an uri whose communicator the node creates by itself, sections stating the automatic properties interface_classes/features/implementation of another class) and from the shipped hardware-free configurations '
         '(demo, sim, cryo, test, sim_mlz_htf02, sim_mlz_cci3he1, ls370sim; their threads, sleeps and random numbers run '
         'behind the seams), probed by a describing client over the wire while poll threads and a second client run '
         'and the driver now and then assigns a reading the datatype refuses: '
         'description strict JSON and stable between calls; described datainfo accepts/rejects what the node does '
         '(reference validator); every emitted value (read/changed replies, updates) importable by the reference '
         'validator and by frappy\'s own client datatype; readonly/constant flags predict refusal, constants read as '
         'described; every module object with export=True is listed; undescribed modules/accessibles (known to the harness) unreachable by read/change/do/activate.',
    note='Trusted: simulation kernel, reference validator (DONTCARE = leniencies), the harness\' knowledge of what exists '
         'but is not exported. The clause "interface class and features match the implementing class" is checked '
         'in generated mode (generated feature mixins, classes derived from the class of an earlier module). In shipped mode a refused '
         'valid payload is not judged.',
    design='6/C06')

NOT_APPLICABLE = {
    'C01': 'pure function of (datatype, candidate, previous) - no schedule, clock, I/O or fault dimension for a simulator to decide',
    'C02': 'pure round-trip law over (datatype, value) - no schedule, clock, I/O or fault dimension',
    'C03': 'pure relation over datatype pairs - no schedule, clock, I/O or fault dimension',
    'C09': 'sequential aliasing property of class/instance construction - no schedule, clock, I/O or fault dimension',
}

PENDING = 'check not built yet in this commit (planned, see DESIGN.md section 6); not claimed until it runs'


def main():
    ids = [json.loads(l)['id'] for l in open(os.path.join(VERIF, 'properties.jsonl'), encoding='utf-8')]
    checks = []
    for pid in ids:
        c = CLAIMED.get(pid)
        if not c:
            continue
        checks.append({
            'property_id': pid,
            'quick_cmd': f'{PY} /verif/run_check.py {pid} --tier quick',
            'thorough_cmd': f'{PY} /verif/run_check.py {pid} --tier thorough',
            'evidence_file': f'/verif/evidence/{pid}.json',
            'replay_cmd_template': f'{PY} /verif/run_check.py {pid} --replay {{path}}',
            'engine': 'frappy-dst',
            'level_claimed': {'category': c['level'], 'text': c['text'], 'design_ref': c['design']},
            'level_note': c['note'],
            'technique': c.get('technique', TECH),
        })
    na = []
    for pid in ids:
        if pid in CLAIMED:
            continue
        na.append({'property_id': pid, 'reason': NOT_APPLICABLE.get(pid, PENDING)})
    manifest = {
        'version': 1,
        'setup_cmd': f'{PY} /verif/tools/setup_check.py',
        'hooks': {
            'guard': 'FRAPPY_VERIF_SIM',
            'enable': 'no source hooks: every seam (threading, time, socket, select, open/os, random, signal, '
                      'get_version) is patched from outside by /verif/sim before frappy is imported; the runner '
                      'sets FRAPPY_VERIF_SIM=1 for its own processes only',
            'baseline_off_cmd': 'cd /repo && /venv/bin/python -m pytest -ra -q -p no:cacheprovider --timeout=900 '
                                '--continue-on-collection-errors',
            'source_commits': [],
            'add_only': True,
        },
        'engines': [{
            'name': 'frappy-dst', 'path': '/verif/sim',
            'serves_properties': sorted(CLAIMED),
            'kind_free_text': 'deterministic simulator: real frappy code on baton-passing real threads, virtual '
                              'discrete-event time, simulated TCP/UDP and file system, one tape of decisions per run, '
                              'seeded search on 16 processes, delta-debugging minimiser, fresh-interpreter replay',
        }],
        'checks': checks,
        'not_applicable': na,
        'notes': 'Entry point /verif/run_check.py <ID> --tier quick|thorough [--replay FILE]; VERIF_SEED honoured; '
                 'exit 0 held / 1 VIOLATION / 2 HARNESS-ERROR. Known findings: /verif/known_findings.json.',
    }
    with open(os.path.join(VERIF, 'MANIFEST.json'), 'w', encoding='utf-8') as f:
        json.dump(manifest, f, indent=1)
        f.write('\n')
    try:
        import jsonschema
        schema = json.load(open('/root/.vp/MANIFEST.schema.json', encoding='utf-8'))
        jsonschema.validate(manifest, schema)
        print('MANIFEST.json valid;', len(checks), 'claimed,', len(na), 'not applicable/pending')
    except ImportError:
        print('MANIFEST.json written (jsonschema not available here)')


if __name__ == '__main__':
    main()
