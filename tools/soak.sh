#!/bin/bash
# soak: thorough tier of the given checks with a few base seeds; prints only result lines
# usage: tools/soak.sh <workers> <seed> <ID>...
W=$1; shift; S=$1; shift
for id in "$@"; do
  echo "=== $id seed $S $(date +%T)"
  VERIF_SEED=$S /venv/bin/python run_check.py $id --tier thorough --workers $W --min-seconds 120 2>&1 | grep -v "^  File\|^    \|^Traceback" | cut -c1-700 | tail -12
done
