#!/bin/bash
# usage: tools/seed_try_copy.sh <ID> <name> [extra run_check args]
# like step 2 of seed_try.sh, but on a scratch copy of /repo under /dev/shm (FRAPPY_VERIF_REPO), so that /repo is
# not touched (for use while something else reads /repo, e.g. selftest/sensitivity.py).
# Writes seeded/<name>/check_output.txt and seeded/<name>/replays/ like seed_try.sh does.
set -u
ID=$1; NAME=$2; shift; shift
D=/verif/seeded/$NAME
S=$(mktemp -d /dev/shm/frappy-try-XXXXXX)
for sub in frappy frappy_demo frappy_mlz frappy_psi frappy_ess cfg; do [ -d /repo/$sub ] && cp -r /repo/$sub $S/; done
patch -p1 -s -d $S -i $D/patch.diff || { echo "patch failed"; rm -rf $S; exit 3; }
rm -rf $D/replays
FRAPPY_VERIF_REPO=$S timeout 1800 /venv/bin/python /verif/run_check.py $ID --tier quick --no-evidence --replay-dir $D/replays "$@" > $D/check_output.txt 2>&1
rc=$?
echo "check $ID on a scratch copy: exit=$rc"
grep -aE "^(VIOLATION|HARNESS|  C[0-9][0-9]\.)|quick:" $D/check_output.txt | cut -c1-260 | head -12
rm -rf $S
