"""process set-up: install the seams, import frappy from the repository under
test, and helpers to build simulated worlds from *real* frappy objects"""
import contextlib
import io
import logging
import os
import sys
import types

from sim import kernel

kernel.install()

REPO = os.environ.get('FRAPPY_VERIF_REPO', '/repo')
if REPO not in sys.path:
    sys.path.insert(0, REPO)
os.environ.setdefault('FRAPPY_VERIF_SIM', '1')

SCRATCH = os.environ.get('FRAPPY_VERIF_SCRATCH') or f'/dev/shm/frappy-verif-{os.getpid()}'

import mlzlog  # noqa: E402

from frappy.lib import generalConfig  # noqa: E402

from pathlib import Path  # noqa: E402

generalConfig.testinit(logdir=Path(SCRATCH) / 'log', piddir=Path(SCRATCH) / 'pid', confdir=[Path(SCRATCH) / 'cfg'])

import frappy.lib  # noqa: E402
import frappy.lib.asynconn as asynconn  # noqa: E402
import frappy.protocol.discovery as discovery  # noqa: E402
import frappy.secnode  # noqa: E402
import frappy.server  # noqa: E402
from frappy.logging import init_remote_logging  # noqa: E402
from frappy.protocol.interface.tcp import TCPRequestHandler  # noqa: E402
from frappy.server import Server  # noqa: E402

from sim import net as simnet  # noqa: E402

# ---- seams that are module globals of frappy modules
asynconn.socket = simnet.socket_shim
asynconn.select = simnet.select_shim
discovery.socket = simnet.socket_shim
frappy.secnode.get_version = lambda *a: 'sim'
discovery.get_version = lambda *a: 'sim'
import frappy.protocol.interface.tcp as _tcpiface  # noqa: E402
from sim import tcpserver as simtcpserver  # noqa: E402
# the TCP interface of a node binds and accepts on the simulated network; DualStackTCPServer was derived from the
# real socketserver class at import time: give it the simulated base class
_tcpiface.socketserver = simtcpserver.shim
# (tcp.py does not use select; a change which makes it do so gets the simulated one)
_tcpiface.select = simnet.select_shim
_tcpiface.DualStackTCPServer.__bases__ = (simtcpserver.ThreadingTCPServer,)
frappy.server.signal = types.SimpleNamespace(
    signal=lambda *a: None, SIGINT=2, SIGTERM=15, default_int_handler=lambda *a: None)
mlzlog.setLoggerClass(mlzlog.MLZLogger)

REPO_FRAPPY = os.path.join(REPO, 'frappy')


def repo_file(rel):
    return os.path.join(REPO_FRAPPY, rel)


_run_counter = [0]


class ListHandler(logging.Handler):
    """collects (levelname, logger name, message) without any I/O"""

    def __init__(self, sink):
        super().__init__()
        self.sink = sink

    def handle(self, record):       # no handler lock needed: one task runs at a time
        try:
            msg = record.getMessage()
        except Exception as e:      # noqa
            msg = f'<unformattable {record.msg!r} {e!r}>'
        sim = kernel.SIM
        if sim is not None and not sim.finished:
            self.sink.append((record.levelname, record.name.split('.', 1)[-1], msg))

    def emit(self, record):
        pass


class World:
    """per-run container; create *inside* the main task so that every lock of
    the system under test is a simulated one"""

    def __init__(self, sim, seg_bias=0.7, lat_bias=0.7):
        self.sim = sim
        _run_counter[0] += 1
        self.rootname = f'simroot{_run_counter[0]}'
        self.logrecords = []
        root = mlzlog.MLZLogger(self.rootname)
        root.setLevel(logging.DEBUG)
        root.addHandler(ListHandler(self.logrecords))
        self.rootlog = root
        self.net = simnet.Net(sim, seg_bias, lat_bias)
        sim.net = self.net
        self.handlers = []
        self.servers = []
        self.stdout = io.StringIO()

    def logger(self, name):
        log = self.rootlog.getChild(name, True)
        return log

    def make_server(self, name, module_cfg, node_cfg=None):
        """a real frappy Server object without running its constructor
        (which reads config files and installs signal handlers)"""
        srv = Server.__new__(Server)
        srv.log = self.logger(name)
        init_remote_logging(srv.log)
        srv._testonly = False
        srv.name = name
        cfg = {'cls': 'frappy.protocol.dispatcher.Dispatcher', 'equipment_id': name,
               'description': f'simulated node {name}'}
        cfg.update(node_cfg or {})
        srv.node_cfg = cfg
        srv.module_cfg = module_cfg
        srv.interfaces = {}
        srv.discovery = None
        self.servers.append(srv)
        return srv

    def serve(self, srv, port=10767, detailed_errors=False):
        """stub for the socketserver accept loop: every accepted connection gets
        a real TCPRequestHandler in its own task"""
        iface = types.SimpleNamespace(dispatcher=srv.dispatcher, log=srv.log.getChild('tcp'),
                                      detailed_errors=detailed_errors)
        world = self

        def accept(sock, addr):
            idx = len(world.handlers)
            rec = {'idx': idx, 'sock': sock, 'handler': None, 'done': False}
            world.handlers.append(rec)
            sock.handler_rec = rec

            def body():
                try:
                    Handler(sock, addr, iface, rec)
                except Exception as e:   # noqa  (socketserver would log it and close the socket)
                    rec['exc'] = repr(e)
                    try:
                        sock.close()
                    except OSError:
                        pass
                finally:
                    rec['done'] = True
                    rec['done_seq'] = world.sim.next_seq()
            import threading
            th = threading.Thread(target=body, name=f'conn{idx}')
            rec['thread'] = th
            th.start()
        return self.net.listen(port, accept)

    def connect_raw(self, port=10767):
        """client side endpoint of a new connection to a served node"""
        return self.net.create_connection(('simhost', port), timeout=None)

    def cleanup(self):
        """outside the simulation, after the run"""
        ld = logging.Logger.manager.loggerDict
        prefix = self.rootname
        for k in [k for k in ld if k == prefix or k.startswith(prefix + '.')]:
            del ld[k]


class Handler(TCPRequestHandler):
    """the real request handler; only identity hashing is made deterministic
    (handlers live in sets inside the dispatcher)"""

    def __init__(self, request, client_address, server, rec):
        self._idx = rec['idx']
        self._rec = rec
        self.server_sim = kernel.SIM
        rec['handler'] = self
        super().__init__(request, client_address, server)

    def __hash__(self):
        return self._idx

    def send_reply(self, data):
        rec = self._rec
        if rec['done']:
            # the handler has finished (connection closed and removed): who still sends to it?
            rec.setdefault('sends_after_done', []).append((self.server_sim.next_seq(), data))
        return super().send_reply(data)

    def __eq__(self, other):
        return self is other


def forget_classes(*classes):
    """drop per-class caches frappy keeps in module globals"""
    from frappy.modulebase import wrapperClasses
    for cls in classes:
        for c in cls.__mro__:
            if c.__module__.startswith(('sim.', 'checks.')):
                wrapperClasses.pop(c, None)


@contextlib.contextmanager
def captured_stdio():
    buf_out, buf_err = io.StringIO(), io.StringIO()
    old = sys.stdout, sys.stderr
    sys.stdout, sys.stderr = buf_out, buf_err
    try:
        yield buf_out, buf_err
    finally:
        sys.stdout, sys.stderr = old
