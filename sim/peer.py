"""scripted SECoP *server* peer for client checks (C11, C12): controls reply
order, timing, content, drops and connection faults"""
import heapq
import json
import socket as _real_socket
import threading

IDENT = b'ISSE&SINE2020,SECoP,V2019-09-16,v1.0\n'


def default_description(nparams=2):
    acc = {'value': {'datainfo': {'type': 'double'}, 'description': 'v', 'readonly': True}}
    for i in range(nparams):
        acc[f'_p{i}'] = {'datainfo': {'type': 'int', 'min': -(1 << 40), 'max': 1 << 40}, 'description': f'p{i}',
                         'readonly': False}
    return {'modules': {'m': {'accessibles': acc, 'description': 'peer module', 'interface_classes': ['Readable'],
                              'features': []}},
            'equipment_id': 'peer', 'firmware': 'scripted', 'description': 'scripted peer'}


class PeerConn:
    def __init__(self, peer, sock, idx):
        self.peer = peer
        self.sock = sock
        self.idx = idx
        self.jobs = []
        self.closed = False
        self.blackhole = False
        self.nreq = 0
        self.lost_at = None


class Peer:
    def __init__(self, world, plan, port=10767, description=None):
        self.world = world
        self.sim = world.sim
        self.plan = plan
        self.port = port
        self.description = description or default_description()
        self.conns = []
        self.requests = []     # {'n', 'conn', 't', 'seq', 'line', 'action', 'spec', 'data'}
        self.sent = []         # {'n' (request) or None, 't', 'seq', 'bytes', 'conn'}
        self.nreq_total = 0
        self.fault_log = []
        self.listener = world.net.listen(port, self._accept)
        self.handler = None    # optional callable(peer, conn, req) -> list of (delay, bytes) or None for default
        self._jobseq = 0

    # ---- connection handling
    def _accept(self, sock, addr):
        conn = PeerConn(self, sock, len(self.conns))
        self.conns.append(conn)
        threading.Thread(target=self._reader, args=(conn,), name=f'peer-r{conn.idx}').start()
        threading.Thread(target=self._writer, args=(conn,), name=f'peer-w{conn.idx}').start()

    def _reader(self, conn):
        buf = b''
        sock = conn.sock
        sock.settimeout(None)
        while not conn.closed:
            try:
                data = sock.recv(65536)
            except OSError:
                break
            if not data:
                break
            buf += data
            while b'\n' in buf:
                line, buf = buf.split(b'\n', 1)
                self._on_line(conn, line)
        self._lose(conn, 'client-closed')

    def _lose(self, conn, why):
        if not conn.closed:
            conn.closed = True
            conn.lost_at = self.sim.vnow()
            self.fault_log.append((self.sim.vnow(), self.sim.next_seq(), conn.idx, why))
            try:
                conn.sock.close()
            except OSError:
                pass

    def schedule(self, conn, delay, data, n=None):
        self._jobseq += 1
        heapq.heappush(conn.jobs, (self.sim.now + delay, self._jobseq, data, n))

    def _writer(self, conn):
        sim = self.sim
        while not conn.closed:
            if not conn.jobs:
                sim.wait_until(lambda: conn.jobs or conn.closed, None, what='peer idle')
                continue
            due = conn.jobs[0][0]
            if due > sim.now:
                sim.wait_until(lambda: conn.closed or (conn.jobs and conn.jobs[0][0] < due), due - sim.now,
                               what='peer due')
                continue
            _due, _s, data, n = heapq.heappop(conn.jobs)
            if conn.blackhole:
                continue
            if data is None:
                continue
            if isinstance(data, tuple) and data[0] == 'stream':
                # an active node keeps sending updates: the client never sees the connection idle
                k = data[1]
                if k < self.plan.get('stream_count', 150):
                    self.schedule(conn, self.plan['stream'], ('stream', k + 1))
                data = f'update m:value [{1000 + k}, {{"t": 4.0}}]\n'.encode()
                self.sim.count('peer.streamed-update')
            elif isinstance(data, tuple) and data[0] == 'split':
                # one line written in two pieces (nothing else goes out on this connection in between)
                try:
                    conn.sock.sendall(data[1])
                    sim.wait_until(lambda: conn.closed, data[3], what='peer pause inside a line')
                    if conn.closed:
                        continue
                    conn.sock.sendall(data[2])
                    self.sent.append({'n': n, 't': sim.vnow(), 'seq': sim.next_seq(), 'bytes': data[1] + data[2], 'conn': conn.idx})
                except OSError:
                    self._lose(conn, 'send-failed')
                continue
            elif isinstance(data, tuple):       # fault marker
                self._do_fault(conn, data)
                continue
            try:
                conn.sock.sendall(data)
                self.sent.append({'n': n, 't': sim.vnow(), 'seq': sim.next_seq(), 'bytes': data, 'conn': conn.idx})
            except OSError:
                self._lose(conn, 'send-failed')

    def _do_fault(self, conn, fault):
        kind = fault[0]
        self.sim.count(f'fault.peer-{kind}')
        if kind == 'close':
            self._lose(conn, 'peer-close')
        elif kind == 'reset':
            conn.closed = True
            conn.lost_at = self.sim.vnow()
            self.fault_log.append((self.sim.vnow(), self.sim.next_seq(), conn.idx, 'peer-reset'))
            conn.sock.inject_reset()
        elif kind == 'blackhole':
            conn.blackhole = True
            self.fault_log.append((self.sim.vnow(), self.sim.next_seq(), conn.idx, 'blackhole'))
        elif kind == 'refuse':
            self.listener.refuse = fault[1]

    # ---- protocol
    def _on_line(self, conn, line):
        sim = self.sim
        text = line.decode('utf-8', 'replace').strip()
        parts = text.split(' ', 2)
        action = parts[0]
        spec = parts[1] if len(parts) > 1 and parts[1] else None
        try:
            data = json.loads(parts[2]) if len(parts) > 2 and parts[2] else None
        except ValueError:
            data = None
        if conn.blackhole:
            return
        if action == '*IDN?':
            self.schedule(conn, self.plan.get('ident_delay', 0), IDENT)
            return
        if action == 'describe':
            self.schedule(conn, self.plan.get('describe_delay', 0),
                          ('describing . ' + json.dumps(self.description) + '\n').encode())
            return
        if action == 'activate' and not self.plan.get('script_activate'):
            for aname, a in self.description['modules']['m']['accessibles'].items():
                if a['datainfo']['type'] != 'command':
                    init = self.plan.get('initial', {}).get(aname, 0)
                    self.schedule(conn, 0, f'update m:{aname} [{json.dumps(init)}, {{"t": 1.0}}]\n'.encode())
            self.schedule(conn, self.plan.get('activate_delay', 0), b'active\n')
            if self.plan.get('stream'):
                self.schedule(conn, self.plan.get('activate_delay', 0) + self.plan['stream'], ('stream', 0))
            return
        n = self.nreq_total
        self.nreq_total += 1
        conn.nreq += 1
        req = {'n': n, 'conn': conn.idx, 't': sim.vnow(), 'seq': sim.next_seq(), 'line': text,
               'action': action, 'spec': spec, 'data': data}
        self.requests.append(req)
        if self.handler is not None:
            out = self.handler(self, conn, req)
            if out is not None:
                for delay, payload in out:
                    self.schedule(conn, delay, payload, n)
                return
        script = self.plan.get('replies') or [{'kind': 'ok', 'delay': 0}]
        step = script[n % len(script)]
        uid = data
        kind = step.get('kind', 'ok')
        delay = step.get('delay', 0)
        def upd_line(upd):
            if upd == 'err':
                # the polled parameter is in an error state
                self.sim.count('peer.error-update')
                return b'error_update m:value ["HardwareError", "sensor broken", {"t": 2.0}]\n'
            return f'update m:value [{upd}, {{"t": 2.0}}]\n'.encode()
        for upd in step.get('updates_before', ()):
            self.schedule(conn, max(0, delay - 0.0001), upd_line(upd))
        rspec = f' {spec}' if spec else ' '
        if kind == 'none':
            pass
        elif kind == 'error':
            self.schedule(conn, delay, f'error_{action}{rspec} ["HardwareError", "failed uid{uid}", {{}}]\n'.encode(), n)
        elif kind == 'ok':
            self.schedule(conn, delay, self._ok_reply(action, spec, uid), n)
        elif kind == 'split':
            # the reply comes in two pieces with a pause in between (a slow link, a node stalling in the middle of a
            # write): longer than the receive time-out of the client or not
            full = self._ok_reply(action, spec, uid)
            cut = max(1, min(len(full) - 1, int(len(full) * step.get('frac', 0.5))))
            self.schedule(conn, delay, ('split', full[:cut], full[cut:], step.get('gap', 1.5)), n)
            self.sim.count('peer.reply-in-two-pieces')
        elif kind == 'midline':
            full = self._ok_reply(action, spec, uid)
            self.schedule(conn, delay, full[:max(1, len(full) // 2)], n)
            self.schedule(conn, delay, ('close',))
        elif kind == 'unsolicited':
            self.schedule(conn, delay, f'pong zzz [null, {{"t": 3.0}}]\n'.encode())
            self.schedule(conn, delay, self._ok_reply(action, spec, uid), n)
        elif kind == 'garbage':
            self.schedule(conn, delay, b'\xff\xfe not utf8 [\n')
            self.schedule(conn, delay, self._ok_reply(action, spec, uid), n)
        for f in step.get('faults', ()):
            self.schedule(conn, f.get('delay', 0), tuple(f['fault']))
        for upd in step.get('updates_after', ()):
            self.schedule(conn, delay, upd_line(upd))

    @staticmethod
    def _ok_reply(action, spec, uid):
        q = json.dumps({'t': 5.0, 'uid': uid})
        rspec = f' {spec}' if spec else ' '
        if action == 'ping':
            return f'pong{rspec} [null, {q}]\n'.encode()
        if action == 'read':
            return f'reply{rspec} [{json.dumps(uid)}, {q}]\n'.encode()
        if action == 'change':
            return f'changed{rspec} [{json.dumps(uid)}, {q}]\n'.encode()
        if action == 'do':
            return f'done{rspec} [null, {q}]\n'.encode()
        return f'{action}_reply{rspec} [null, {q}]\n'.encode()
