"""batch runner: seeds -> cases -> simulated runs on all cores, known findings,
minimisation, fresh-interpreter replay, evidence"""
import argparse
import hashlib
import importlib
import json
import os
import random
import shutil
import signal
import subprocess
import sys
import time as _time

VERIF = os.path.dirname(os.path.dirname(os.path.abspath(__file__)))
PINNED = {'PYTHONHASHSEED': '0', 'TZ': 'UTC', 'PYTHONDONTWRITEBYTECODE': '1', 'FRAPPY_VERIF_SIM': '1'}
DEFAULT_SEED = 20261003

_perf = _time.perf_counter     # real wall clock (captured before the kernel patches `time`)


def pin_environment():
    """re-exec once so that hash randomisation, time zone etc. are fixed"""
    if all(os.environ.get(k) == v for k, v in PINNED.items()):
        return
    env = dict(os.environ)
    env.update(PINNED)
    os.execve(sys.executable, [sys.executable] + sys.argv, env)


def load_check(pid):
    mod = importlib.import_module(f'checks.{pid.lower()}')
    return mod.CHECK


def seed_for(base, i):
    h = hashlib.sha256(f'{base}:{i}'.encode()).digest()
    return int.from_bytes(h[:8], 'big')


def code_digest():
    """digest of the frappy sources the run was made against"""
    from sim import env
    h = hashlib.sha256()
    for root, dirs, files in os.walk(env.REPO_FRAPPY):
        dirs.sort()
        if '__pycache__' in root or '/gui' in root:
            continue
        for f in sorted(files):
            if f.endswith('.py'):
                with open(os.path.join(root, f), 'rb') as fh:
                    h.update(f.encode())
                    h.update(fh.read())
    return h.hexdigest()[:16]


# ------------------------------------------------------------------ workers

def worker_loop(check, tier, base, w, nworkers, nruns, deadline, outpath, first=0):
    from sim import harness
    with open(outpath, 'w', encoding='utf-8') as out:
        # one fixed warm-up run: import-time and caching code runs here, so a
        # seed's result does not depend on its position in the batch
        harness.execute(check, check.warmup_case(), seed=1)
        i = first + w
        while i < first + nruns and _perf() < deadline:
            seed = seed_for(base, i)
            rng = random.Random(seed)
            case = check.gen_case(rng, tier)
            res = harness.execute(check, case, seed=seed ^ 0x5DEECE66D)
            rec = {'i': i, 'seed': seed, 'stats': res['stats'], 'nontrivial': res['nontrivial'],
                   'cd': res['case_digest'], 'sd': res['switch_digest'], 'digest': res['digest']}
            if res['violations'] or res['harness_error'] or i < first + 3 * nworkers:
                rec['case'] = case
            if res['violations'] or res['harness_error']:
                rec['violations'] = res['violations']
                rec['harness_error'] = res['harness_error']
                rec['tape'] = res['tape']
            out.write(json.dumps(rec, default=repr) + '\n')
            out.flush()
            if res['harness_error'] and 'wall-timeout' in res['harness_error']:
                break    # threads of that run may be stuck for real: give up this worker
            i += nworkers
        out.write(json.dumps({'end': True}) + '\n')


def run_batch(check, tier, base, nruns, wall, nworkers, scratch, first=0):
    deadline = _perf() + wall
    pids = []
    paths = []
    for w in range(nworkers):
        path = os.path.join(scratch, f'w{w}.jsonl')
        paths.append(path)
        pid = os.fork()
        if pid == 0:
            code = 0
            try:
                os.environ['FRAPPY_VERIF_SCRATCH'] = os.path.join(scratch, f'fs{w}')
                worker_loop(check, tier, base, w, nworkers, nruns, deadline, path, first)
            except BaseException:   # noqa
                import traceback
                traceback.print_exc()
                code = 3
            finally:
                sys.stdout.flush()
                sys.stderr.flush()
                os._exit(code)
        pids.append(pid)
    # wait with a hard cap: the batch wall + slack for one run
    hard = deadline + check.RUN_WALL + 60
    alive = dict.fromkeys(pids)
    problems = []
    while alive and _perf() < hard:
        for pid in list(alive):
            p, status = os.waitpid(pid, os.WNOHANG)
            if p:
                del alive[pid]
                if status != 0:
                    problems.append(f'worker {pid} exited with status {status}')
        if alive:
            _time.sleep(0.05)
    for pid in alive:
        problems.append(f'worker {pid} exceeded the batch wall cap and was killed')
        try:
            os.kill(pid, signal.SIGKILL)
            os.waitpid(pid, 0)
        except OSError:
            pass
    records = []
    for path in paths:
        ended = False
        try:
            with open(path, encoding='utf-8') as f:
                for line in f:
                    rec = json.loads(line)
                    if rec.get('end'):
                        ended = True
                    else:
                        records.append(rec)
        except (OSError, ValueError) as e:
            problems.append(f'unreadable worker output {path}: {e!r}')
        if not ended:
            problems.append(f'worker output {path} incomplete')
    records.sort(key=lambda r: r['i'])
    return records, problems


# ------------------------------------------------------------------ minimisation

_warm = set()


def _fires(check, case, tape, sig):
    from sim import harness
    if check.ID not in _warm:
        _warm.add(check.ID)
        harness.execute(check, check.warmup_case(), seed=1)
    res = harness.execute(check, case, replay=tape)
    if res['harness_error']:
        return None
    for v in res['violations']:
        if v['sig'] == sig:
            return res
    return None


def minimise(check, case, tape, sig, budget_s):
    """delta debugging over plan operations and the schedule tape"""
    t_end = _perf() + budget_s
    res = _fires(check, case, tape, sig)
    if res is None:
        return case, tape, False
    tape = res['tape']
    case = json.loads(json.dumps(case))

    def ok(c, t):
        if _perf() > t_end:
            return None
        return _fires(check, c, t, sig)

    # 1. the schedule: no tape at all, then shortest failing prefix, then zeroed blocks
    r = ok(case, [])
    if r is not None:
        tape = r['tape']
    else:
        lo, hi = 0, len(tape)
        while lo < hi and _perf() < t_end:
            mid = (lo + hi) // 2
            r = ok(case, tape[:mid])
            if r is not None:
                hi = mid
            else:
                lo = mid + 1
        r = ok(case, tape[:hi])
        if r is not None:
            tape = tape[:hi]
    # 2. structural shrinks offered by the check, then drop operations (ddmin)
    changed = True
    while changed and _perf() < t_end:
        changed = False
        for cand in check.shrink_candidates(case):
            r = ok(cand, tape)
            if r is not None:
                case = cand
                changed = True
                break
    for key in ('ops', 'faults'):
        ops = case.get(key)
        if not isinstance(ops, list) or not ops:
            continue
        n = 2
        while len(ops) >= 1 and _perf() < t_end:
            chunk = max(1, len(ops) // n)
            removed = False
            for start in range(0, len(ops), chunk):
                cand_ops = ops[:start] + ops[start + chunk:]
                cand = dict(case)
                cand[key] = cand_ops
                r = ok(cand, tape)
                if r is not None:
                    ops = cand_ops
                    case = cand
                    removed = True
                    n = max(n - 1, 2)
                    break
            if not removed:
                if chunk == 1:
                    break
                n = min(n * 2, len(ops))
    # 3. zero blocks of the tape (removes context switches / latencies)
    block = max(1, len(tape) // 2)
    while block >= 1 and _perf() < t_end:
        pos = 0
        while pos < len(tape) and _perf() < t_end:
            if any(tape[pos:pos + block]):
                cand = tape[:pos] + [0] * len(tape[pos:pos + block]) + tape[pos + block:]
                r = ok(case, cand)
                if r is not None:
                    tape = cand
            pos += block
        block //= 2
    while tape and tape[-1] == 0:
        tape.pop()
    r = _fires(check, case, tape, sig)
    return case, tape, r is not None


# ------------------------------------------------------------------ known findings

def load_known():
    path = os.path.join(VERIF, 'known_findings.json')
    try:
        with open(path, encoding='utf-8') as f:
            data = json.load(f)
    except FileNotFoundError:
        return []
    return data.get('findings', [])


def match_known(known, pid, sig):
    for k in known:
        if k.get('property') != pid:
            continue
        if k.get('sig') == sig or (k.get('sig_prefix') and sig.startswith(k['sig_prefix'])):
            return k
    return None


# ------------------------------------------------------------------ evidence

def write_evidence(check, tier, base, records, wall, known_seen, nviol, problems, extra=None):
    n = len(records)
    distinct = set()
    counters = {}
    tot = {'steps': 0, 'switches': 0, 'choices2': 0, 'virt_s': 0.0, 'lines': 0, 'preempt': 0}
    inter = set()
    for r in records:
        st = r['stats']
        if r.get('nontrivial'):
            distinct.add((r['cd'], r['sd']))
        inter.add(r['sd'])
        for k in tot:
            tot[k] += st.get(k, 0)
        for k, v in st.get('counters', {}).items():
            counters[k] = counters.get(k, 0) + v
    samples = []
    for r in records:
        if 'case' in r and len(samples) < 3:
            samples.append({'seed': r['seed'], 'case': r['case'], 'stats': r['stats']})
    faults = {k: v for k, v in sorted(counters.items()) if k.split('.')[0] in ('net', 'fs', 'fault', 'clock')}
    probes = {k: v for k, v in sorted(counters.items()) if k not in faults}
    cov = {
        'evaluations': n,
        'distinct_nontrivial': len(distinct),
        'rule': check.RULE,
        'samples': samples or [{'note': 'no run completed'}],
        'runs_per_hour': round(n / wall * 3600) if wall > 0 else 0,
        'seeds': {'base': base, 'derivation': 'sha256(base:i)[:8], i = 0..evaluations-1',
                  'first': [r['seed'] for r in records[:3]]},
        'simulated_seconds': round(tot['virt_s'], 1),
        'scheduler_steps': tot['steps'],
        'context_switches': tot['switches'],
        'scheduling_decisions_with_choice': tot['choices2'],
        'line_events_traced': tot['lines'],
        'line_preemptions': tot['preempt'],
        'distinct_interleavings': len(inter),
        'distinct_interleavings_measure': 'sha256 of the sequence of task ids that received the baton',
        'faults_fired': faults,
        'probes_hit': probes,
        'probes_required': list(check.PROBES),
        'probes_stuck_at_zero': [p for p in check.PROBES if not counters.get(p)],
        'components_real': check.REAL,
        'components_stub': check.STUB,
        'known_findings_seen': known_seen,
        'harness_problems': problems,
        'code_digest': code_digest(),
    }
    if extra:
        cov.update(extra)
    ev = {
        'property_id': check.ID, 'tier': tier, 'seed': base, 'level': check.LEVEL,
        'coverage': cov, 'assumptions': check.ASSUMPTIONS, 'wall_s': round(wall, 2),
        'violations': nviol,
    }
    os.makedirs(os.path.join(VERIF, 'evidence'), exist_ok=True)
    path = os.path.join(VERIF, 'evidence', f'{check.ID}.json')
    tmp = path + '.tmp'
    with open(tmp, 'w', encoding='utf-8') as f:
        json.dump(ev, f, indent=1, default=repr)
        f.write('\n')
    os.replace(tmp, path)
    return path


# ------------------------------------------------------------------ entry points

def do_replay(check, path, expect=None, quiet=False):
    from sim import harness
    with open(path, encoding='utf-8') as f:
        rep = json.load(f)
    harness.execute(check, check.warmup_case(), seed=1)
    res = harness.execute(check, rep['case'], replay=rep['tape'])
    if res['harness_error']:
        print(f'HARNESS-ERROR property={check.ID} {res["harness_error"]}')
        return 2
    sigs = [v['sig'] for v in res['violations']]
    want = expect or rep.get('sig')
    if not quiet:
        for v in res['violations']:
            print(f'  rule={v["rule"]} sig={v["sig"]}\n    {v["msg"]}')
    if want in sigs or (want is None and sigs):
        print(f'VIOLATION property={check.ID} replay={path}')
        return 1
    print(f'replay of {path}: recorded violation {want!r} did not fire (got {sigs})')
    return 0


def run_check(pid, tier, args):
    t0 = _perf()
    check = load_check(pid)
    base = int(os.environ.get('VERIF_SEED', DEFAULT_SEED))
    cfg = dict(check.TIERS[tier])
    nruns = args.runs or cfg['runs']
    wall = args.seconds or cfg['wall']
    nworkers = args.workers or min(16, os.cpu_count() or 1)
    scratch = f'/dev/shm/frappy-verif-{os.getpid()}'
    os.makedirs(scratch, exist_ok=True)
    try:
        records, problems = run_batch(check, tier, base, nruns, wall, nworkers, scratch, args.first)
        if args.dump_digests:
            with open(args.dump_digests, 'w', encoding='utf-8') as f:
                json.dump({str(r['i']): r['digest'] for r in records}, f)
        known = [] if args.ignore_known else load_known()
        by_sig = {}
        harness_errors = []
        for r in records:
            if r.get('harness_error'):
                harness_errors.append(r)
            for v in r.get('violations') or ():
                by_sig.setdefault(v['sig'], []).append((r, v))
        known_seen = []
        new = []
        for sig, lst in sorted(by_sig.items()):
            k = match_known(known, check.ID, sig)
            if k:
                known_seen.append({'sig': sig, 'runs': len(lst), 'first_seed': lst[0][0]['seed']})
                print(f'KNOWN-FINDING: property={check.ID} {sig} -- {k.get("what", k.get("description", ""))}'
                      f' (seen in {len(lst)} of {len(records)} runs)')
            else:
                new.append((sig, lst))
        exit_code = 0
        nviol = 0
        replay_dir = args.replay_dir or os.path.join(VERIF, 'replays')
        os.makedirs(replay_dir, exist_ok=True)
        for sig, lst in new[:args.max_report]:
            rec, v = min(lst, key=lambda rv: len(rv[0].get('tape') or ()))
            case, tape = rec['case'], rec['tape']
            minimised = False
            if not args.no_minimise:
                case, tape, minimised = minimise(check, case, tape, sig, args.min_seconds)
                if not minimised:
                    case, tape = rec['case'], rec['tape']
            safe = ''.join(c if c.isalnum() else '_' for c in sig)[:60]
            path = os.path.join(replay_dir, f'{check.ID}-{rec["seed"]}-{safe}.json')
            with open(path, 'w', encoding='utf-8') as f:
                json.dump({'property': check.ID, 'rule': v['rule'], 'sig': sig, 'msg': v['msg'],
                           'seed': rec['seed'], 'tier': tier, 'minimised': minimised,
                           'runs_with_this_signature': len(lst),
                           'case': case, 'tape': tape, 'code_digest': code_digest()}, f, indent=1, default=repr)
                f.write('\n')
            # the replay file must reproduce the violation in a fresh interpreter
            cp = subprocess.run([sys.executable, os.path.join(VERIF, 'run_check.py'), check.ID,
                                 '--replay', path, '--quiet'], capture_output=True, text=True,
                                timeout=check.RUN_WALL * 3 + 120, check=False)
            if cp.returncode == 1:
                nviol += 1
                exit_code = 1
                print(f'  {sig}: {v["msg"]}')
                print(f'VIOLATION property={check.ID} replay={path}')
            else:
                problems.append(f'violation {sig} (seed {rec["seed"]}) did not replay in a fresh interpreter: '
                                f'rc={cp.returncode} {cp.stdout[-500:]} {cp.stderr[-500:]}')
        if len(new) > args.max_report:
            print(f'note: {len(new) - args.max_report} further distinct violation signatures not minimised: '
                  + ', '.join(s for s, _ in new[args.max_report:]))
        for r in harness_errors[:5]:
            problems.append(f'seed {r["seed"]}: {r["harness_error"]}')
        if harness_errors:
            problems.append(f'{len(harness_errors)} runs with harness errors')
        wall_used = _perf() - t0
        if args.no_evidence:
            path = '(not written)'
        else:
            path = write_evidence(check, tier, base, records, wall_used, known_seen, nviol, problems)
        n = len(records)
        print(f'{check.ID} {tier}: {n} runs in {wall_used:.1f}s, '
              f'{len(by_sig)} violation signature(s) ({len(known_seen)} known), evidence {path}')
        if problems:
            for p in problems[:20]:
                print(f'HARNESS-ERROR property={check.ID} {p}')
            return 2 if exit_code == 0 else exit_code
        if n == 0:
            print(f'HARNESS-ERROR property={check.ID} no runs completed')
            return 2
        return exit_code
    finally:
        shutil.rmtree(scratch, ignore_errors=True)


def main(argv=None):
    ap = argparse.ArgumentParser()
    ap.add_argument('property')
    ap.add_argument('--tier', default=os.environ.get('VERIF_TIER', 'quick'), choices=['quick', 'thorough'])
    ap.add_argument('--replay')
    ap.add_argument('--expect')
    ap.add_argument('--quiet', action='store_true')
    ap.add_argument('--runs', type=int)
    ap.add_argument('--first', type=int, default=0)
    ap.add_argument('--seconds', type=float)
    ap.add_argument('--workers', type=int)
    ap.add_argument('--no-minimise', action='store_true')
    ap.add_argument('--min-seconds', type=float, default=90)
    ap.add_argument('--max-report', type=int, default=4)
    ap.add_argument('--dump-digests')
    ap.add_argument('--no-evidence', action='store_true',
                    help='do not rewrite evidence/<id>.json (runs against scratch or mutated trees)')
    ap.add_argument('--replay-dir', help='where replay files are written (default /verif/replays)')
    ap.add_argument('--ignore-known', action='store_true',
                    help='treat known findings as new (to regenerate their replay files)')
    args = ap.parse_args(argv)
    pin_environment()
    if VERIF not in sys.path:
        sys.path.insert(0, VERIF)
    pid = args.property.upper()
    if args.replay:
        return do_replay(load_check(pid), args.replay, args.expect, args.quiet)
    return run_check(pid, args.tier, args)
