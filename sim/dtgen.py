"""SECoP datainfo: generator, value generator, boundary payloads and an
independent three-valued reference validator.

Everything here works on the *JSON* datainfo (as a `describing` reply carries
it) and on *JSON* payloads -- it shares no code with frappy.datatypes.
"""
import base64
import binascii
import math

ACCEPT, REJECT, DONTCARE = 'accept', 'reject', 'dontcare'
WRONGTYPE, RANGE = 'WrongType', 'RangeError'
FMAX = 1.7976931348623157e308


# ------------------------------------------------------------------ datainfo generator

def gen_datainfo(rng, depth=2, allow_containers=True):
    kinds = ['double', 'int', 'scaled', 'bool', 'enum', 'string', 'blob']
    if depth > 0 and allow_containers:
        kinds += ['array', 'tuple', 'struct'] * 2
    kind = rng.choice(kinds)
    if kind == 'double':
        di = {'type': 'double'}
        r = rng.random()
        if r < 0.6:
            lo = rng.choice([-1000.0, -1.5, 0.0, 0.001, 10.0, -1e30])
            hi = lo + rng.choice([0.0, 0.5, 1.0, 99.0, 1e6, 1e31])
            di['min'], di['max'] = lo, hi
        elif r < 0.7:
            di['min'] = rng.choice([0.0, -273.15])
        elif r < 0.8:
            di['max'] = rng.choice([0.0, 1e3])
        if rng.random() < 0.2:
            di['absolute_resolution'] = rng.choice([0.001, 0.5])
        if rng.random() < 0.2:
            di['relative_resolution'] = rng.choice([1e-3, 1e-9])
        if rng.random() < 0.3:
            di['unit'] = rng.choice(['K', 'mbar', '$/s', 'T'])
        return di
    if kind == 'int':
        # 64 bit counters and identifiers: beyond 2**53 not every integer is a float
        lo = rng.choice([-16777216, -5, 0, 1, 100, -(1 << 40), -(1 << 62) - 1, (1 << 53) + 1])
        hi = lo + rng.choice([0, 1, 3, 255, 1 << 24, 1 << 41, (1 << 63) + 2])
        return {'type': 'int', 'min': lo, 'max': hi}
    if kind == 'scaled':
        scale = rng.choice([0.1, 0.01, 0.5, 2.0, 1e-3, 3.0])
        lo = rng.choice([-1000, -3, 0, 5, 100000])
        hi = lo + rng.choice([0, 1, 7, 1000, 2000000])
        di = {'type': 'scaled', 'scale': scale, 'min': lo, 'max': hi}
        if rng.random() < 0.3:
            di['unit'] = rng.choice(['V', 'A'])
        return di
    if kind == 'bool':
        return {'type': 'bool'}
    if kind == 'enum':
        n = rng.randrange(1, 5)
        names = rng.sample(['off', 'on', 'idle', 'busy', 'error', 'a', 'b', 'Mode_1'], n)
        vals = rng.sample([0, 1, 2, 3, 7, 100, 300, -1], n)
        return {'type': 'enum', 'members': dict(zip(names, vals))}
    if kind == 'string':
        di = {'type': 'string'}
        r = rng.random()
        if r < 0.4:
            lo = rng.choice([0, 1, 3])
            di['minchars'] = lo
            di['maxchars'] = lo + rng.choice([0, 1, 5, 40])
            if di['minchars'] == 0:
                del di['minchars']
        if rng.random() < 0.4:
            di['isUTF8'] = True
        return di
    if kind == 'blob':
        lo = rng.choice([0, 0, 1, 4])
        di = {'type': 'blob', 'maxbytes': lo + rng.choice([0, 1, 3, 16, 64])}
        if di['maxbytes'] == 0:
            di['maxbytes'] = 1
        if lo:
            di['minbytes'] = lo
        return di
    if kind == 'array':
        lo = rng.choice([0, 0, 1, 2])
        return {'type': 'array', 'minlen': lo, 'maxlen': lo + rng.choice([0, 1, 3, 6]) or 1,
                'members': gen_datainfo(rng, depth - 1)}
    if kind == 'tuple':
        return {'type': 'tuple', 'members': [gen_datainfo(rng, depth - 1) for _ in range(rng.randrange(1, 4))]}
    n = rng.randrange(1, 4)
    names = rng.sample(['a', 'b', 'c', 'x', 'y', 'set_point'], n)
    di = {'type': 'struct', 'members': {k: gen_datainfo(rng, depth - 1) for k in names}}
    r = rng.random()
    if r < 0.35:
        di['optional'] = rng.sample(names, rng.randrange(0, n + 1))
    return di


def _opt(di):
    """names that may be omitted; SECoP/frappy: no 'optional' key means all optional"""
    return list(di['optional']) if 'optional' in di else list(di['members'])


# ------------------------------------------------------------------ frappy datatype from datainfo (server side)

def build_datatype(di):
    """a *server side* frappy datatype equivalent to the datainfo (uses the frappy constructors
    directly, not get_datatype, which marks datatypes as client side)"""
    from frappy import datatypes as dt
    t = di['type']
    if t == 'double':
        kw = {k: di[k] for k in ('unit', 'absolute_resolution', 'relative_resolution', 'fmtstr') if k in di}
        return dt.FloatRange(di.get('min'), di.get('max'), **kw)
    if t == 'int':
        return dt.IntRange(di['min'], di['max'])
    if t == 'scaled':
        kw = {k: di[k] for k in ('unit', 'absolute_resolution', 'relative_resolution', 'fmtstr') if k in di}
        return dt.ScaledInteger(di['scale'], di['min'] * di['scale'], di['max'] * di['scale'], **kw)
    if t == 'bool':
        return dt.BoolType()
    if t == 'enum':
        return dt.EnumType('e', members=dict(di['members']))
    if t == 'string':
        kw = {'isUTF8': True} if di.get('isUTF8') else {}
        return dt.StringType(di.get('minchars', 0), di.get('maxchars', dt.UNLIMITED), **kw)
    if t == 'blob':
        return dt.BLOBType(di.get('minbytes', 0), di['maxbytes'])
    if t == 'array':
        return dt.ArrayOf(build_datatype(di['members']), di.get('minlen', 0), di['maxlen'])
    if t == 'tuple':
        return dt.TupleOf(*[build_datatype(m) for m in di['members']])
    if t == 'struct':
        return dt.StructOf(di.get('optional'), **{k: build_datatype(m) for k, m in di['members'].items()})
    raise ValueError(t)


# ------------------------------------------------------------------ values

def _prec(di, v):
    return max(abs(v) * di.get('relative_resolution', 1.2e-7), di.get('absolute_resolution', 0.0))


def valid_wire(rng, di, full=True, surrogates=False):
    """a JSON payload that is certainly valid for the datainfo

    surrogates: UTF8 strings may contain what bytes.decode(errors='surrogateescape') and os.fsdecode
    give for a byte outside of the encoding - a str for Python and for StringType, "\\udcb5" in JSON
    """
    t = di['type']
    if t == 'double':
        lo, hi = di.get('min', -FMAX), di.get('max', FMAX)
        r = rng.random()
        if r < 0.15:
            return float(lo)
        if r < 0.3:
            return float(hi)
        if lo <= -1e300 or hi >= 1e300:
            c = rng.choice([0.0, 1.5, -2.25, 1e10, 123.456])
            return float(min(max(c, lo), hi))
        return float(lo + (hi - lo) * rng.random())
    if t == 'int':
        return rng.choice([di['min'], di['max'], rng.randint(di['min'], di['max'])])
    if t == 'scaled':
        return rng.choice([di['min'], di['max'], rng.randint(di['min'], di['max'])])
    if t == 'bool':
        return rng.random() < 0.5
    if t == 'enum':
        return rng.choice(sorted(di['members'].values()))
    if t == 'string':
        lo, hi = di.get('minchars', 0), min(di.get('maxchars', 30), 30)
        n = rng.randint(lo, max(lo, hi))
        alphabet = 'abcXYZ 019_-"\\/{}[]' + ('äπ€☃' if di.get('isUTF8') else '')
        if surrogates and di.get('isUTF8') and rng.random() < 0.3:
            alphabet += '\udcb5\udcff'
        return ''.join(rng.choice(alphabet) for _ in range(n))
    if t == 'blob':
        lo, hi = di.get('minbytes', 0), min(di['maxbytes'], 40)
        n = rng.randint(lo, max(lo, hi))
        return base64.b64encode(bytes(rng.randrange(256) for _ in range(n))).decode()
    if t == 'array':
        lo, hi = di.get('minlen', 0), min(di['maxlen'], 6)
        n = rng.randint(lo, max(lo, hi))
        return [valid_wire(rng, di['members'], full, surrogates) for _ in range(n)]
    if t == 'tuple':
        return [valid_wire(rng, m, full, surrogates) for m in di['members']]
    if t == 'struct':
        res = {}
        opt = _opt(di)
        for k, m in di['members'].items():
            if full or k not in opt or rng.random() < 0.6:
                res[k] = valid_wire(rng, m, full, surrogates)
        return res
    raise ValueError(t)


def to_internal(di, w):
    """wire JSON -> the python value a driver would hand to frappy"""
    t = di['type']
    if t == 'scaled':
        return w * di['scale']
    if t == 'blob':
        return base64.b64decode(w)
    if t == 'array':
        return [to_internal(di['members'], e) for e in w]
    if t == 'tuple':
        return tuple(to_internal(m, e) for m, e in zip(di['members'], w))
    if t == 'struct':
        return {k: to_internal(di['members'][k], e) for k, e in w.items()}
    return w


def to_wire(di, v):
    """python value as handled inside frappy (validated) -> wire JSON, by *our* rules"""
    t = di['type']
    if t == 'double':
        return float(v)
    if t == 'int':
        return int(v)
    if t == 'scaled':
        return int(round(v / di['scale']))
    if t == 'bool':
        return bool(v)
    if t == 'enum':
        return int(v)
    if t == 'string':
        return str(v)
    if t == 'blob':
        return base64.b64encode(v).decode()
    if t == 'array':
        return [to_wire(di['members'], e) for e in v]
    if t == 'tuple':
        return [to_wire(m, e) for m, e in zip(di['members'], v)]
    if t == 'struct':
        return {str(k): to_wire(di['members'][k], e) for k, e in v.items()}
    raise ValueError(t)


def wire_equal(di, a, b):
    """equality of two wire values of this datainfo (floats within the resolution)"""
    t = di['type']
    try:
        if t == 'double':
            if isinstance(a, bool) or isinstance(b, bool):
                return False
            return a == b or abs(a - b) <= max(_prec(di, a), 1e-12 * abs(a))
        if t in ('array',):
            return isinstance(a, list) and isinstance(b, list) and len(a) == len(b) and \
                all(wire_equal(di['members'], x, y) for x, y in zip(a, b))
        if t == 'tuple':
            return len(a) == len(b) == len(di['members']) and \
                all(wire_equal(m, x, y) for m, x, y in zip(di['members'], a, b))
        if t == 'struct':
            return set(a) == set(b) and all(wire_equal(di['members'][k], a[k], b[k]) for k in a)
        if t == 'bool':
            return isinstance(a, bool) and isinstance(b, bool) and a == b
        if t in ('int', 'scaled', 'enum'):
            return not isinstance(a, bool) and not isinstance(b, bool) and a == b and \
                float(a).is_integer() and float(b).is_integer()
        return type(a) is type(b) and a == b
    except Exception:   # noqa
        return False


# ------------------------------------------------------------------ reference validator

def wire_contains(di, part, whole):
    """<part> is <whole> with optional struct members left out (at any depth): every member given is equal"""
    t = di['type']
    try:
        if t == 'array':
            return isinstance(part, list) and isinstance(whole, list) and len(part) == len(whole) and \
                all(wire_contains(di['members'], x, y) for x, y in zip(part, whole))
        if t == 'tuple':
            return len(part) == len(whole) == len(di['members']) and \
                all(wire_contains(m, x, y) for m, x, y in zip(di['members'], part, whole))
        if t == 'struct':
            return set(part) <= set(whole) and all(wire_contains(di['members'][k], part[k], whole[k]) for k in part)
        return wire_equal(di, part, whole)
    except Exception:   # noqa
        return False


def has_struct(di):
    t = di['type']
    if t == 'struct':
        return True
    if t == 'array':
        return has_struct(di['members'])
    if t == 'tuple':
        return any(has_struct(m) for m in di['members'])
    return False


def _isnum(x):
    return isinstance(x, (int, float)) and not isinstance(x, bool)


NOPREV = ('no previous value',)


def classify(di, w, previous=None, param=False):
    """(verdict, info): ACCEPT -> info = canonical wire value; REJECT -> info = set of
    acceptable error classes; DONTCARE -> info = None.
    <previous> is the current wire value of the parameter (partial struct merge).
    <param>: the payload is the new value of a parameter: members left out are taken from the current value - member
    by member, array element by array element - and where there is nothing to take them from (an array element
    beyond the current length) the value is incomplete and must be refused"""
    t = di['type']
    if t == 'double':
        if isinstance(w, bool):
            return DONTCARE, None
        if not _isnum(w):
            return REJECT, {WRONGTYPE}
        if isinstance(w, float) and math.isnan(w):
            return REJECT, {RANGE, WRONGTYPE}    # NaN is not a number: it is inside no range
        if isinstance(w, float) and math.isinf(w):
            return DONTCARE, None
        lo, hi = di.get('min', -FMAX), di.get('max', FMAX)
        if lo <= w <= hi:
            return ACCEPT, float(w)
        p = _prec(di, w)
        if lo - 2 * p - 1e-300 <= w <= hi + 2 * p + 1e-300:
            return DONTCARE, None
        return REJECT, {RANGE}
    if t == 'int':
        if isinstance(w, bool):
            return DONTCARE, None
        if not _isnum(w):
            return REJECT, {WRONGTYPE}
        if isinstance(w, float):
            if math.isnan(w):
                return REJECT, {RANGE, WRONGTYPE}
            if math.isinf(w):
                return DONTCARE, None
            if not w.is_integer():
                return REJECT, {WRONGTYPE}
            if abs(w) >= 2 ** 53:
                return DONTCARE, None
            return (DONTCARE, None) if di['min'] <= w <= di['max'] else (REJECT, {RANGE})
        if di['min'] <= w <= di['max']:
            return ACCEPT, w
        return REJECT, {RANGE}
    if t == 'scaled':
        if isinstance(w, bool):
            return DONTCARE, None
        if not _isnum(w):
            return REJECT, {WRONGTYPE}
        if isinstance(w, float):
            if math.isnan(w):
                return REJECT, {RANGE, WRONGTYPE}
            if math.isinf(w):
                return DONTCARE, None
            if not w.is_integer():
                return REJECT, {WRONGTYPE}
            return DONTCARE, None
        if di['min'] <= w <= di['max']:
            return ACCEPT, w
        if di['min'] - 1 <= w <= di['max'] + 1:
            return DONTCARE, None
        return REJECT, {RANGE}
    if t == 'bool':
        if isinstance(w, bool):
            return ACCEPT, w
        if _isnum(w):
            return (DONTCARE, None) if w in (0, 1) else (REJECT, {WRONGTYPE, RANGE})
        return REJECT, {WRONGTYPE}
    if t == 'enum':
        vals = set(di['members'].values())
        if isinstance(w, bool):
            return DONTCARE, None
        if isinstance(w, int):
            return (ACCEPT, w) if w in vals else (REJECT, {RANGE})
        if isinstance(w, float):
            if w.is_integer() and int(w) in vals:
                return DONTCARE, None
            return REJECT, {RANGE, WRONGTYPE}
        if isinstance(w, str):
            return (DONTCARE, None) if w in di['members'] else (REJECT, {RANGE, WRONGTYPE})
        return REJECT, {WRONGTYPE}
    if t == 'string':
        if not isinstance(w, str):
            return REJECT, {WRONGTYPE}
        if not di.get('minchars', 0) <= len(w) <= di.get('maxchars', 1 << 64):
            return REJECT, {RANGE}
        if '\0' in w:
            return REJECT, {RANGE}
        if not di.get('isUTF8') and not w.isascii():
            return REJECT, {RANGE}
        if any(0xD800 <= ord(c) <= 0xDFFF for c in w):
            return DONTCARE, None     # an unpaired surrogate (legal JSON escape, no Unicode text)
        return ACCEPT, w
    if t == 'blob':
        if not isinstance(w, str):
            return REJECT, {WRONGTYPE}
        try:
            raw = base64.b64decode(w.encode('ascii'), validate=True)
        except (binascii.Error, ValueError, UnicodeEncodeError):
            return REJECT, {WRONGTYPE}
        if not di.get('minbytes', 0) <= len(raw) <= di['maxbytes']:
            return REJECT, {RANGE}
        if base64.b64encode(raw).decode() != w:
            return DONTCARE, None          # non-canonical padding bits
        return ACCEPT, w
    if t == 'array':
        if not isinstance(w, list):
            return REJECT, {WRONGTYPE}
        def prev_of(i):
            if isinstance(previous, list) and i < len(previous):
                return previous[i]
            return NOPREV if param else None
        inner = _combine([classify(di['members'], e, prev_of(i), param) for i, e in enumerate(w)], list)
        if not di.get('minlen', 0) <= len(w) <= di['maxlen']:
            return REJECT, {RANGE} | (inner[1] if inner[0] == REJECT else set())
        return inner
    if t == 'tuple':
        if not isinstance(w, list):
            return REJECT, {WRONGTYPE}
        if len(w) != len(di['members']):
            return REJECT, {WRONGTYPE}
        return _combine([classify(m, e, previous[i] if isinstance(previous, list) and i < len(previous)
                                   else (NOPREV if param else None), param)
                         for i, (m, e) in enumerate(zip(di['members'], w))], list)
    if t == 'struct':
        if not isinstance(w, dict):
            return REJECT, {WRONGTYPE}
        if set(w) - set(di['members']):
            return REJECT, {WRONGTYPE}
        missing = set(di['members']) - set(w) - set(_opt(di))
        if missing:
            return REJECT, {WRONGTYPE}
        keys = list(w)
        nulls = [k for k in keys if w[k] is None]
        res = [classify(di['members'][k], w[k], previous.get(k, NOPREV if param else None) if isinstance(previous, dict)
                        else (NOPREV if param else None), param) for k in keys if w[k] is not None]
        verdict, info = _combine(res, list)
        if verdict == ACCEPT:
            if nulls:
                return DONTCARE, None
            merged = dict(previous) if isinstance(previous, dict) else {}
            merged.update(dict(zip([k for k in keys if w[k] is not None], info)))
            if set(merged) == set(di['members']):
                return ACCEPT, merged
            if param and (previous is NOPREV or isinstance(previous, dict)):
                # nothing (more) to complete the value from: a parameter can not hold an incomplete struct
                return REJECT, {WRONGTYPE}
            if isinstance(previous, dict):
                return ACCEPT, merged
            return DONTCARE, None      # partial struct and the current value is unknown
        return verdict, info
    raise ValueError(t)


def _combine(results, ctor):
    classes = set()
    dont = False
    for v, info in results:
        if v == REJECT:
            classes |= info
        elif v == DONTCARE:
            dont = True
    if classes:
        return REJECT, classes
    if dont:
        return DONTCARE, None
    return ACCEPT, ctor(info for _, info in results)


# ------------------------------------------------------------------ boundary payloads

NAN = float('nan')     # json.dumps writes it as the (non-standard) literal NaN, which json.loads of the node accepts
INF = float('inf')
JSON_KINDS = [None, True, False, 0, 1, -1, 2.5, 1e308, 'x', '5', '', [], [1], {}, {'a': 1}, [[]], 'abc', NAN, INF]


def boundary_payloads(rng, di, n=6):
    """a mix of valid and (single-fault) invalid JSON payloads for the datainfo"""
    out = []
    for _ in range(n):
        r = rng.random()
        if r < 0.4:
            out.append(valid_wire(rng, di, full=rng.random() < 0.5))
        elif r < 0.6:
            out.append(rng.choice(JSON_KINDS))
        else:
            out.append(_mutate(rng, di, valid_wire(rng, di)))
    return out


def _mutate(rng, di, w):
    t = di['type']
    if t == 'double':
        lo, hi = di.get('min', -FMAX), di.get('max', FMAX)
        c = [str(w), [w], None, True, NAN, NAN, INF, -INF]
        if lo > -1e300:
            p = _prec(di, lo)
            c += [lo - 3 * p - abs(lo) * 1e-3 - 1e-3, lo - 0.5 * p]
        if hi < 1e300:
            p = _prec(di, hi)
            c += [hi + 3 * p + abs(hi) * 1e-3 + 1e-3, hi + 0.5 * p]
        return rng.choice(c)
    if t == 'int':
        return rng.choice([di['min'] - 1, di['max'] + 1, w + 0.5, float(w), str(w), [w], di['max'] + 10 ** 6, None, NAN, INF])
    if t == 'scaled':
        return rng.choice([di['min'] - 2, di['max'] + 2, di['min'] - 1, w + 0.5, str(w), float(w), [w], None,
                           di['max'] + 10 ** 7, NAN, -INF])
    if t == 'bool':
        return rng.choice([0, 1, 2, 'true', 'True', None, [True], 0.5, -1])
    if t == 'enum':
        names = list(di['members'])
        return rng.choice([max(di['members'].values()) + 1, min(di['members'].values()) - 1, names[0], names[0].upper() + '_',
                           float(w), w + 0.5, [w], None, str(w)])
    if t == 'string':
        c = [5, [w], None, w + '\0', list(w) if w else ['a']]
        if 'maxchars' in di:
            c.append('x' * (di['maxchars'] + 1))
        if di.get('minchars', 0) > 0:
            c.append('x' * (di['minchars'] - 1))
        if not di.get('isUTF8'):
            c.append((w[:-1] if 'maxchars' in di and w else w) + 'é')
        # half an emoji: json.loads accepts the escape of an unpaired surrogate
        c.append((w[:-1] if 'maxchars' in di and w else w) + '\ud83d')
        c.append('\ud83d')
        return rng.choice(c)
    if t == 'blob':
        c = [5, [w], None, '!!!!', w + '=' if w else '=', 'AAA', w[:-1] + '*' if w else '*',
             base64.b64encode(b'x' * (di['maxbytes'] + 1)).decode()]
        if di.get('minbytes', 0) > 0:
            c.append(base64.b64encode(b'x' * (di['minbytes'] - 1)).decode())
        return rng.choice(c)
    if t == 'array':
        r = rng.random()
        mem = di['members']
        if r < 0.3 and w:
            i = rng.randrange(len(w))
            w = list(w)
            w[i] = _mutate(rng, mem, w[i])
            return w
        c = [5, 'abc', {'0': 1}, None, [valid_wire(rng, mem) for _ in range(di['maxlen'] + 1)]]
        if di.get('minlen', 0) > 0:
            c.append([valid_wire(rng, mem) for _ in range(di['minlen'] - 1)])
        if mem['type'] in ('double', 'int', 'scaled', 'bool', 'enum') and w:
            c.append(w[0])          # bare element instead of the array
        return rng.choice(c)
    if t == 'tuple':
        r = rng.random()
        if r < 0.3:
            i = rng.randrange(len(w))
            w = list(w)
            w[i] = _mutate(rng, di['members'][i], w[i])
            return w
        return rng.choice([w[:-1], w + [w[-1]], w[0], 5, 'ab', None, dict(enumerate(w))])
    if t == 'struct':
        r = rng.random()
        keys = list(di['members'])
        if r < 0.3:
            k = rng.choice(keys)
            w = dict(w)
            w[k] = _mutate(rng, di['members'][k], w[k])
            return w
        if r < 0.5:
            w = dict(w)
            w.pop(rng.choice(keys))
            return w
        if r < 0.65:
            w = dict(w)
            w['zz_unknown'] = 1
            return w
        if r < 0.75:
            w = dict(w)
            w[rng.choice(keys)] = None
            return w
        return rng.choice([list(w.values()), 5, 'abc', None, []])
    raise ValueError(t)
