"""run one case of a check under the kernel and judge it"""
import gc
import hashlib
import json
import random
import re
import traceback

from sim import env, kernel

_ADDR = re.compile(r'0x[0-9a-fA-F]+')


def digest(obj):
    return hashlib.sha256(_ADDR.sub('0x', repr(obj)).encode('utf-8', 'replace')).hexdigest()[:16]


def jdigest(obj):
    return hashlib.sha256(json.dumps(obj, sort_keys=True, default=repr).encode()).hexdigest()[:16]


class Violation(dict):
    def __init__(self, rule, site, msg, **extra):
        """rule: oracle rule id ('C08.stale-snapshot'); site: short, stable class of the
        failing site/history (becomes part of the signature); msg: human readable"""
        super().__init__(rule=rule, sig=f'{rule}|{site}' if site else rule, msg=str(msg)[:2000], **extra)


class Check:
    """base class of all property checks"""
    ID = None
    LEVEL = 'exploration'
    TRACE_FILES = ()
    RUN_WALL = 60          # wall seconds allowed for one run
    MAX_STEPS = 1_500_000
    MAX_VIRTUAL = None
    SPIN_READS = 5000      # a task that reads the clock that often and does nothing else is spinning (kernel._tick)
    TIERS = {'quick': {'runs': 2000, 'wall': 60}, 'thorough': {'runs': 200000, 'wall': 900}}
    RULE = ''
    REAL = []              # components running real code
    STUB = []              # components replaced by stubs
    ASSUMPTIONS = []
    PROBES = ()            # counters that must be non-zero over a thorough batch

    def gen_case(self, rng, tier):
        raise NotImplementedError

    def main(self, sim, case, ctx):
        raise NotImplementedError

    def judge(self, sim, case, ctx):
        return []

    def nontrivial(self, sim, case, ctx):
        return sim.nchoice2 >= 1

    def observation(self, sim, case, ctx):
        """anything that must be identical when a run is repeated (goes into the digest)"""
        return ctx.get('obs')

    def shrink_candidates(self, case):
        """yield structurally simpler variants of a case (beyond dropping ops)"""
        return ()

    def deadlock_is_violation(self, sim, case, ctx):
        return None

    def warmup_case(self):
        return self.gen_case(random.Random(12345), 'quick')


def execute(check, case, seed=None, replay=None):
    """one simulated run; returns a JSON-able result dict"""
    shape = case.get('shape', {})
    tape = kernel.Tape(random.Random(seed), replay)
    sim = kernel.Sim(tape,
                     p_switch=shape.get('p_switch', 0.2),
                     line_gap_max=shape.get('line_gaps', 0), trace_opcodes=shape.get('opcodes', False),
                     trace_files=tuple(env.repo_file(f) for f in check.TRACE_FILES),
                     max_steps=check.MAX_STEPS, max_virtual=check.MAX_VIRTUAL, spin_reads=check.SPIN_READS)
    ctx = {}
    random.seed(shape.get('random_seed', 1))

    def main():
        check.main(sim, case, ctx)

    with env.captured_stdio() as (out, err):
        sim.run(main, wall_timeout=check.RUN_WALL)
    ctx['stdout'] = out.getvalue()
    ctx['stderr'] = err.getvalue()
    res = {'violations': [], 'harness_error': None}
    main_task = sim.tasks[0]
    try:
        if sim.failure and sim.failure[0] in ('wall-timeout', 'task-stuck'):
            res['harness_error'] = f'{sim.failure}'
        elif sim.failure and sim.failure[0] in ('step-limit', 'virtual-time-limit') and \
                check.deadlock_is_violation(sim, case, ctx) is None:
            res['harness_error'] = f'{sim.failure} (run did not terminate within its caps)'
        elif isinstance(main_task.exc, SystemExit):
            res['harness_error'] = 'main task exited: ' + ctx['stderr'][-1500:]
        elif main_task.exc is not None:
            e = main_task.exc
            res['harness_error'] = 'main task raised: ' + ''.join(
                traceback.format_exception(type(e), e, e.__traceback__))[-3000:]
        else:
            if sim.failure and sim.failure[0] in ('deadlock', 'step-limit', 'virtual-time-limit'):
                v = check.deadlock_is_violation(sim, case, ctx)
                if v is None:
                    res['harness_error'] = f'{sim.failure[0]}: {sim.failure[1:]}'
                else:
                    res['violations'].append(v)
            if not res['harness_error']:
                res['violations'].extend(check.judge(sim, case, ctx))
    except Exception:   # noqa
        res['harness_error'] = 'judge raised: ' + traceback.format_exc()[-3000:]
    try:
        nontrivial = bool(check.nontrivial(sim, case, ctx)) and not res['harness_error']
    except Exception:   # noqa
        nontrivial = False
    obs = None
    try:
        obs = check.observation(sim, case, ctx)
    except Exception:   # noqa
        pass
    res.update(
        tape=tape.out,
        stats={'steps': sim.steps, 'switches': sim.nswitch, 'choices2': sim.nchoice2,
               'virt_s': round(sim.now - kernel.EPOCH, 3), 'tasks': len(sim.tasks),
               'lines': sim.nline, 'preempt': sim.npreempt, 'counters': dict(sim.counters)},
        nontrivial=nontrivial,
        case_digest=jdigest(case),
        switch_digest=digest(sim.switch_log),
        digest=digest((sim.trace, tape.out, sim.switch_log, obs, [v['sig'] for v in res['violations']])),
    )
    if DEBUG_HOOK is not None:
        DEBUG_HOOK(sim, case, ctx, res)
    world = ctx.get('world')
    if world is not None:
        try:
            world.cleanup()
        except Exception:  # noqa
            pass
    for fn in ctx.get('cleanup', ()):
        try:
            fn()
        except Exception:  # noqa
            pass
    ctx.clear()
    del sim, tape
    _runs[0] += 1
    if _runs[0] % 10 == 0:
        gc.collect()
    return res


_runs = [0]
DEBUG_HOOK = None     # debugging aid: callable(sim, case, ctx, res) run before the world is torn down
