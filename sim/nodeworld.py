"""a complete simulated SEC node (real Server._processCfg / SecNode / Dispatcher /
poll threads / TCPRequestHandler) over generated modules and a fake driver,
plus scripted raw wire clients"""
import json
import socket as _real_socket

from sim import dtgen, env, genmod, wire


class Node:
    def __init__(self, world, name, specs, drv, port=10767, tag='', start=True, node_cfg=None):
        self.world = world
        self.sim = world.sim
        self.name = name
        self.specs = {s['name']: s for s in specs}
        self.drv = drv
        self.port = port
        self.classes = []
        byname = {}
        for s in specs:
            # 'derive': the implementing class is a subclass of the class of an earlier module
            cls = genmod.make_class(s, drv, tag, parent=byname.get(s.get('derive')))
            byname[s['name']] = cls
            self.classes.append(cls)
        self.cfg = {s['name']: genmod.module_cfg(s, c) for s, c in zip(specs, self.classes)}
        self.srv = world.make_server(name, self.cfg, node_cfg)
        self.history = []       # ground truth of the parameter cache (callbacks inside the update lock)
        if start:
            self.start()

    def start(self):
        self.srv._processCfg()
        self.secnode = self.srv.secnode
        self.dispatcher = self.srv.dispatcher
        self.listener = self.world.serve(self.srv, self.port)

    def watch_cache(self):
        """register a callback on every parameter: frappy calls it inside the module's update
        lock at every cache change it announces, so the recorded sequence is the cache history"""
        sim = self.sim
        hist = self.history
        for mname, mobj in self.secnode.modules.items():
            for pname, pobj in mobj.parameters.items():
                spec_di = self.drv.di.get((mname, pname))

                def cb(*value_err, mname=mname, pname=pname, pobj=pobj, mobj=mobj):
                    if sim.finished:
                        return
                    hist.append({'seq': sim.next_seq(), 't': sim.vnow(), 'mod': mname, 'param': pname,
                                 'export': pobj.export, 'state': cache_state(pobj)})
                mobj.addCallback(pname, cb)

    def add_flaky_callbacks(self, plan):
        """plan: {'<module>.<param>': {'exc': <name of an exception class>, 'every': n}} - a parameter callback of the
        application (an update_<param> hook, an automatic save, ...) which fails at every n-th call.  Registered after
        the callbacks of watch_cache, so the recorded cache history is complete whatever frappy does with the failure"""
        sim = self.sim
        excs = {'OSError': OSError, 'KeyError': KeyError, 'ValueError': ValueError, 'RuntimeError': RuntimeError,
                'ZeroDivisionError': ZeroDivisionError, 'TypeError': TypeError}
        for key, f in sorted(plan.items()):
            mname, pname = key.split('.')
            mobj = self.secnode.modules.get(mname)
            if mobj is None or pname not in mobj.parameters:
                continue
            count = [0]

            def flaky(*value_err, f=f, count=count, key=key):
                count[0] += 1
                if count[0] % f['every'] == 0 and not sim.finished:
                    sim.count('fault.parameter-callback-raised')
                    raise excs[f['exc']](f'callback of {key} failed')
            # applications register plain functions, bound methods, functools.partial objects, callable instances
            style = f.get('style', 'function')
            if style == 'partial':
                import functools
                flaky = functools.partial(flaky)
            elif style == 'object':
                class _Cb:
                    def __init__(self, fn):
                        self.fn = fn

                    def __call__(self, *args):
                        return self.fn(*args)
                flaky = _Cb(flaky)
            mobj.addCallback(pname, flaky)

    def module(self, name):
        return self.secnode.modules[name]

    def cache(self):
        """{(module, exported name): state} of every exported parameter"""
        res = {}
        for mname in self.secnode.export:
            mobj = self.secnode.modules[mname]
            for pobj in mobj.parameters.values():
                if pobj.export:
                    res[mname, pobj.export] = cache_state(pobj)
        return res

    def shutdown(self):
        self.secnode.shutdown_modules()

    def forget(self):
        env.forget_classes(*self.classes)


def cache_state(pobj):
    """JSON-able value-or-error of a parameter, as the wire would show it"""
    if pobj.readerror:
        return ['err', pobj.readerror.name, str(pobj.readerror), pobj.timestamp or None]
    try:
        # (the transport form straight from the datatype, not through Parameter.export_value: the ground truth must
        # not share a cache or a shortcut with the code which builds the messages)
        return ['ok', json.loads(json.dumps(pobj.datatype.export_value(pobj.value))), pobj.timestamp or None]
    except Exception as e:     # noqa
        return ['unexportable', repr(e), None, pobj.timestamp]


def msg_state(line):
    """the same representation from an update / error_update / reply / changed / error_read line"""
    d = line.data
    if line.action.startswith('error_'):
        if wire.is_error_report(d):
            return ['err', d[0], d[1], d[2].get('t')]
        return ['malformed', d, None, None]
    if isinstance(d, list) and len(d) == 2 and isinstance(d[1], dict):
        return ['ok', d[0], d[1].get('t')]
    return ['malformed', d, None, None]


class RawClient:
    """scripted wire client; used from the task that created it"""

    def __init__(self, world, port=10767, name=None):
        self.world = world
        self.sim = world.sim
        self.ep = world.net.create_connection(('simhost', port))
        self.hidx = self.ep.peer.handler_rec['idx']
        self.buf = b''
        self.lines = []        # (seq, vtime, Line) in arrival order
        self.sent = []         # (seq, vtime, bytes)
        self.closed = False
        self.eof = False

    def send(self, data):
        if isinstance(data, str):
            data = data.encode('utf-8')
        self.sent.append((self.sim.next_seq(), self.sim.vnow(), data))
        self.ep.sendall(data)

    def _pump(self, timeout):
        """one recv; returns False on timeout / eof"""
        self.ep.settimeout(timeout)
        try:
            data = self.ep.recv(65536)
        except _real_socket.timeout:
            return False
        except OSError:
            self.eof = True
            return False
        if not data:
            self.eof = True
            return False
        self.buf += data
        while b'\n' in self.buf:
            raw, self.buf = self.buf.split(b'\n', 1)
            self.lines.append((self.sim.next_seq(), self.sim.vnow(), wire.Line(raw, len(self.lines))))
        return True

    def drain(self, quiet=0.5, maxtime=30.0):
        """read until nothing arrived for <quiet> virtual seconds"""
        t_end = self.sim.vnow() + maxtime
        while not self.eof and self.sim.vnow() < t_end:
            if not self._pump(quiet):
                break

    def wait_reply(self, nbefore, timeout=30.0, count=1):
        """wait until <count> more non-async lines than <nbefore> have arrived"""
        t_end = self.sim.vnow() + timeout
        while True:
            n = sum(1 for _s, _t, ln in self.lines if not ln.is_async)
            if n >= nbefore + count:
                return True
            left = t_end - self.sim.vnow()
            if left <= 0 or self.eof:
                return False
            self._pump(left)

    def nreplies(self):
        return sum(1 for _s, _t, ln in self.lines if not ln.is_async)

    def request(self, text, timeout=30.0):
        """send one request line and wait for its reply line; returns (seq, t, Line) or None"""
        n = self.nreplies()
        self.send(text + '\n')
        if not self.wait_reply(n, timeout):
            return None
        k = 0
        for rec in self.lines:
            if not rec[2].is_async:
                k += 1
                if k == n + 1:
                    return rec
        return None

    def close(self):
        if not self.closed:
            self.closed = True
            self.ep.close()
