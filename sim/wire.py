"""SECoP wire parser used by the oracles (independent of frappy's codec)"""
import json

REQUEST2REPLY = {
    'describe': 'describing', 'activate': 'active', 'deactivate': 'inactive', 'do': 'done',
    'change': 'changed', 'read': 'reply', 'ping': 'pong', 'help': 'helping', 'logging': 'logging',
}
IDENT_PREFIX = 'ISSE&SINE2020,SECoP,'
ASYNC_ACTIONS = {'update', 'error_update', 'log', '_'}
ERROR_CLASSES = {
    'ProtocolError', 'NoSuchModule', 'NoSuchParameter', 'NoSuchCommand', 'ReadOnly', 'WrongType', 'RangeError',
    'BadJSON', 'NotImplemented', 'CommandFailed', 'CommandRunning', 'CommunicationFailed', 'IsBusy', 'IsError',
    'Disabled', 'Impossible', 'ReadFailed', 'OutOfRange', 'HardwareError', 'TimeoutError', 'InternalError',
}


class NotStrict(ValueError):
    pass


def _reject_constant(name):
    raise NotStrict(f'non-JSON token {name}')


def strict_loads(text):
    return json.loads(text, parse_constant=_reject_constant)


class Line:
    __slots__ = ('raw', 'utf8', 'action', 'spec', 'data', 'has_data', 'json_ok', 'problem', 'idx', 'pos')

    def __init__(self, raw, idx=None, pos=None):
        self.raw = raw
        self.idx = idx
        self.pos = pos
        self.utf8 = True
        self.action = self.spec = self.data = None
        self.has_data = False
        self.json_ok = True
        self.problem = None
        try:
            text = raw.decode('utf-8')
        except UnicodeDecodeError as e:
            self.utf8 = False
            self.problem = f'invalid UTF-8: {e}'
            text = raw.decode('latin-1')
        parts = text.split(' ', 2)
        self.action = parts[0]
        if len(parts) > 1:
            self.spec = parts[1] or None
        if len(parts) > 2 and parts[2] != '':
            self.has_data = True
            try:
                self.data = strict_loads(parts[2])
            except (ValueError, RecursionError) as e:
                self.json_ok = False
                self.problem = f'data part is not strict JSON: {e} in {parts[2][:80]!r}'

    @property
    def is_async(self):
        return self.action in ASYNC_ACTIONS

    @property
    def is_ident(self):
        return self.raw.startswith(IDENT_PREFIX.encode())

    def __repr__(self):
        return f'<{self.raw[:120]!r}>'


def split_stream(data):
    """(complete lines without the newline, unterminated rest)"""
    parts = data.split(b'\n')
    return parts[:-1], parts[-1]


def parse_stream(data):
    lines, rest = split_stream(data)
    pos = 0
    res = []
    for i, raw in enumerate(lines):
        res.append(Line(raw, i, pos))
        pos += len(raw) + 1
    return res, rest


def replies(lines):
    return [ln for ln in lines if not ln.is_async]


def is_error_report(data):
    return isinstance(data, list) and len(data) == 3 and isinstance(data[0], str) and \
        isinstance(data[1], str) and isinstance(data[2], dict)
