"""simulated network: TCP-like stream endpoints, listeners, UDP sockets

All blocking happens in virtual time through the kernel; all random choices
(segment sizes, latencies) come from the tape.  TCP semantics are kept: no
loss, duplication or reordering inside a stream.  Faults are driven by the
scenario (close, reset, black hole, refused connects, full send buffer).
"""
import socket as _real_socket
import types

from sim import kernel

SEG_SIZES = (0, 1, 2, 3, 7, 16, 61, 509)        # 0 = everything that is left
LATENCIES = (0.0, 0.0002, 0.003, 0.02, 0.15, 0.6)


class Endpoint:
    """one side of a simulated TCP connection"""

    def __init__(self, net, name):
        self.net = net
        self.sim = net.sim
        self.name = name
        self.peer = None
        self.rx = []             # delivered chunks (bytes), readable now
        self.inflight = 0        # bytes scheduled but not yet delivered to us
        self.eof = False         # peer closed, visible once rx is drained
        self.reset = False       # connection reset by peer
        self.closed = False      # closed locally
        self.timeout = None
        self.blackhole = False   # data sent from here silently disappears
        self.last_arrival = 0.0  # keeps segments in order
        self.sent_log = []       # (vtime, seq, bytes) as passed to sendall
        self.recv_log = []       # (vtime, seq, bytes) as returned by recv
        self.deliver_log = []    # (vtime, seq, bytes) as they arrived at this side (readable from then on)
        self.rcvbuf = None       # optional limit on rx+inflight (send blocks when reached)

    # -- socket API used by frappy
    def settimeout(self, t):
        self.timeout = t

    def gettimeout(self):
        return self.timeout

    def setsockopt(self, *a):
        pass

    def fileno(self):
        return -1

    def _readable(self):
        return bool(self.rx) or self.eof or self.reset or self.closed

    def recv(self, n, flags=0):
        sim = self.sim
        sim.yield_point()
        if self.closed:
            raise OSError(9, 'Bad file descriptor')
        if not self._readable():
            ok = sim.wait_until(self._readable, self.timeout, what=f'recv {self.name}')
            if not ok:
                raise _real_socket.timeout('timed out')
            if self.closed:
                raise OSError(9, 'Bad file descriptor')
        if self.rx:
            data = self.rx[0]
            if len(data) > n:
                self.rx[0] = data[n:]
                data = data[:n]
            else:
                self.rx.pop(0)
            self.recv_log.append((sim.vnow(), sim.next_seq(), data))
            return data
        if self.reset:
            raise ConnectionResetError(104, 'Connection reset by peer')
        return b''   # eof

    def _deliver(self, data):
        self.inflight -= len(data)
        if self.closed or self.reset:
            return
        self.deliver_log.append((self.sim.vnow(), self.sim.next_seq(), data))
        self.rx.append(data)

    def _deliver_eof(self):
        self.eof = True

    def _deliver_reset(self):
        self.reset = True
        self.rx.clear()

    def _space(self):
        peer = self.peer
        return peer.rcvbuf is None or peer.closed or self.closed or \
            sum(map(len, peer.rx)) + peer.inflight < peer.rcvbuf

    def sendall(self, data, flags=0):
        sim = self.sim
        net = self.net
        tape = sim.tape
        sim.yield_point()
        pos = 0
        data = bytes(data)
        if self.closed:
            raise OSError(9, 'Bad file descriptor')
        self.sent_log.append((sim.vnow(), sim.next_seq(), data))
        while pos < len(data):
            if self.closed:
                raise OSError(9, 'Bad file descriptor')
            if self.reset:
                raise ConnectionResetError(104, 'Connection reset by peer')
            peer = self.peer
            if peer.closed:
                # write after the peer closed: the data is lost and a RST comes back
                sim.count('net.send-to-closed')
                sim.call_at(sim.now, self._deliver_reset)
                return
            if not self._space():
                sim.count('net.sendbuf-full')
                if not sim.wait_until(self._space, self.timeout, what=f'send {self.name}'):
                    sim.count('net.send-timeout')
                    raise _real_socket.timeout('timed out')
                continue
            left = len(data) - pos
            n = left
            if net.seg_bias < 1.0:
                size = SEG_SIZES[tape.choose(len(SEG_SIZES), bias0=net.seg_bias)]
                if 0 < size < left:
                    n = size
                    sim.count('net.segmented')
            lat = 0.0
            if net.lat_bias < 1.0:
                lat = LATENCIES[tape.choose(len(LATENCIES), bias0=net.lat_bias)]
                if lat:
                    sim.count('net.delayed')
            chunk = data[pos:pos + n]
            pos += n
            if self.blackhole:
                sim.count('net.blackholed')
            else:
                at = max(self.last_arrival, sim.now + lat)
                self.last_arrival = at
                peer.inflight += len(chunk)
                sim.call_at(at, lambda p=peer, c=chunk: p._deliver(c))
            if pos < len(data):
                sim.yield_point()     # two unsynchronised senders do interleave here

    def send(self, data, flags=0):
        """like socket.send: waits until the peer has room, then takes as much as fits (at least one byte, possibly
        only a prefix) and returns the number of bytes taken"""
        sim = self.sim
        data = bytes(data)
        sim.yield_point()
        if self.closed:
            raise OSError(9, 'Bad file descriptor')
        if self.reset:
            raise ConnectionResetError(104, 'Connection reset by peer')
        peer = self.peer
        if not data or peer.closed or peer.rcvbuf is None:
            self.sendall(data)
            return len(data)
        if not self._space():
            sim.count('net.sendbuf-full')
            if not sim.wait_until(self._space, self.timeout, what=f'send {self.name}'):
                sim.count('net.send-timeout')
                raise _real_socket.timeout('timed out')
        room = max(1, peer.rcvbuf - (sum(map(len, peer.rx)) + peer.inflight))
        n = min(len(data), room)
        if n < len(data):
            sim.count('net.partial-send')
        # the part taken goes out like a sendall of its own (not limited again by the room)
        saved, peer.rcvbuf = peer.rcvbuf, None
        try:
            self.sendall(data[:n])
        finally:
            peer.rcvbuf = saved
        return n

    def shutdown(self, how=None):
        if self.reset:
            # after a RST the socket is in state CLOSE: Linux answers shutdown() with ENOTCONN
            self.sim.count('net.shutdown-after-reset')
            raise OSError(107, 'Transport endpoint is not connected')
        self._fin()

    def _fin(self):
        peer = self.peer
        if peer is not None and not self.blackhole and not getattr(self, '_fin_sent', False):
            self._fin_sent = True
            at = max(self.last_arrival, self.sim.now)
            self.last_arrival = at
            self.sim.call_at(at, peer._deliver_eof)

    def close(self):
        if self.closed:
            return
        self.closed = True
        if kernel.SIM is self.sim and not self.sim.finished:
            self._fin()

    # -- fault injection (called by scenario code)
    def inject_reset(self):
        """the peer of this endpoint sees a connection reset; this side is dead"""
        self.closed = True
        self.sim.count('net.reset')
        self.sim.call_at(max(self.last_arrival, self.sim.now), self.peer._deliver_reset)


def _tname():
    import threading
    return threading.current_thread().name


class Listener:
    def __init__(self, accept_fn):
        self.accept_fn = accept_fn
        self.refuse = 0          # refuse the next <refuse> connection attempts
        self.accept = True
        self.count = 0


class Net:
    def __init__(self, sim, seg_bias=0.7, lat_bias=0.7):
        self.sim = sim
        self.seg_bias = seg_bias     # probability that a send is *not* segmented
        self.lat_bias = lat_bias     # probability of zero latency per segment
        self.listeners = {}
        self.nconn = 0
        self.pairs = []
        self.connect_log = []        # (vtime, port, outcome, task)
        self.udp_sockets = []

    def udp_factory(self, family=None, type=None, proto=0):   # pylint: disable=redefined-builtin
        return UdpSocket(self)

    def _unused(self):
        pass

    def listen(self, port, accept_fn):
        lst = Listener(accept_fn)
        self.listeners[port] = lst
        return lst

    def pair(self, name=None):
        self.nconn += 1
        name = name or f'{self.nconn}'
        a, b = Endpoint(self, f'c{name}'), Endpoint(self, f's{name}')
        a.peer, b.peer = b, a
        self.pairs.append((a, b))
        return a, b

    def create_connection(self, addr, timeout=None, source_address=None):
        sim = self.sim
        sim.yield_point()
        host, port = addr[0], addr[1]
        lst = self.listeners.get(port)
        if lst is None or not lst.accept:
            self.connect_log.append((sim.vnow(), port, 'refused', _tname()))
            sim.count('net.refused')
            raise ConnectionRefusedError(111, 'Connection refused')
        if lst.refuse > 0:
            lst.refuse -= 1
            self.connect_log.append((sim.vnow(), port, 'refused', _tname()))
            sim.count('net.refused')
            raise ConnectionRefusedError(111, 'Connection refused')
        a, b = self.pair()
        a.timeout = timeout
        # optional: the accepting side has a small receive buffer (a sender using send() gets short counts)
        b.rcvbuf = getattr(self, 'accept_rcvbuf', None)
        lst.count += 1
        self.connect_log.append((sim.vnow(), port, 'ok', _tname()))
        lst.accept_fn(b, (host, 40000 + self.nconn))
        return a

    def select(self, r, w, x, timeout=None):
        self.sim.yield_point()
        ready = [s for s in r if s._readable()]
        if not ready and (timeout is None or timeout > 0):
            # blocking select: until one of the sockets is readable or the time-out (virtual time) is over
            self.sim.wait_until(lambda: any(s._readable() for s in r), timeout, what='select')
            ready = [s for s in r if s._readable()]
        return ready, [], []


class UdpSocket:
    """simulated datagram socket: the harness injects datagrams, sends are recorded"""

    def __init__(self, net):
        self.net = net
        self.sim = net.sim
        self.queue = []        # (data, addr)
        self.sent = []         # (vtime, seq, data, addr)
        self.closed = False
        self.bound = None
        self.opts = []
        self.timeout = None
        self.received = []     # what recvfrom handed out
        net.udp_sockets.append(self)

    def setsockopt(self, *a):
        self.opts.append(a)

    def settimeout(self, t):
        self.timeout = t

    def bind(self, addr):
        self.bound = addr

    def fileno(self):
        return -1

    def inject(self, data, addr):
        if not self.closed:
            self.queue.append((bytes(data), addr))

    def recvfrom(self, n):
        sim = self.sim
        sim.yield_point()
        if self.closed:
            raise OSError(9, 'Bad file descriptor')
        if not self.queue:
            ok = sim.wait_until(lambda: self.queue or self.closed, self.timeout, what='udp recv')
            if not ok:
                raise _real_socket.timeout('timed out')
            if self.closed:
                raise OSError(9, 'Bad file descriptor')
        data, addr = self.queue.pop(0)
        self.received.append((sim.vnow(), sim.next_seq(), data, addr))
        return data[:n], addr

    def sendto(self, data, addr):
        sim = self.sim
        sim.yield_point()
        if self.closed:
            raise OSError(9, 'Bad file descriptor')
        self.sent.append((sim.vnow(), sim.next_seq(), bytes(data), addr))
        return len(data)

    def shutdown(self, how=None):
        self.closed = True

    def close(self):
        self.closed = True


# ---------------------------------------------------------------- module shims
# frappy modules get these objects as their `socket` / `select` globals; they
# dispatch to the Net of the running simulation

def _net():
    sim = kernel.SIM
    net = getattr(sim, 'net', None)
    if net is None:
        raise kernel.HarnessError('no simulated network in this run')
    return net


def _create_connection(addr, timeout=None, source_address=None):
    return _net().create_connection(addr, timeout, source_address)


def _select(r, w, x, timeout=None):
    return _net().select(r, w, x, timeout)


def _udp_socket(family=None, type=None, proto=0):   # pylint: disable=redefined-builtin
    return _net().udp_factory(family, type, proto)


socket_shim = types.SimpleNamespace(
    create_connection=_create_connection,
    socket=_udp_socket,
    timeout=_real_socket.timeout,
    gaierror=_real_socket.gaierror,
    error=_real_socket.error,
    herror=_real_socket.herror,
    SHUT_RDWR=_real_socket.SHUT_RDWR,
    SHUT_RD=_real_socket.SHUT_RD,
    SHUT_WR=_real_socket.SHUT_WR,
    AF_INET=_real_socket.AF_INET,
    AF_INET6=_real_socket.AF_INET6,
    SOCK_DGRAM=_real_socket.SOCK_DGRAM,
    SOCK_STREAM=_real_socket.SOCK_STREAM,
    SOL_SOCKET=_real_socket.SOL_SOCKET,
    SO_REUSEADDR=_real_socket.SO_REUSEADDR,
    SO_BROADCAST=_real_socket.SO_BROADCAST,
    SO_REUSEPORT=getattr(_real_socket, 'SO_REUSEPORT', 15),
    IPPROTO_UDP=_real_socket.IPPROTO_UDP,
    IPPROTO_IP=_real_socket.IPPROTO_IP,
    IP_ADD_MEMBERSHIP=_real_socket.IP_ADD_MEMBERSHIP,
    IP_MULTICAST_TTL=_real_socket.IP_MULTICAST_TTL,
    INADDR_ANY=_real_socket.INADDR_ANY,
    inet_aton=_real_socket.inet_aton,
    inet_pton=_real_socket.inet_pton,
    getfqdn=lambda name='': name or 'simhost',
    gethostname=lambda: 'simhost',
)

select_shim = types.SimpleNamespace(select=_select)
