"""Deterministic simulation kernel for threaded, blocking Python code.

Real OS threads, one baton: exactly one task runs at any time, it runs until
it reaches a yield point (lock operation, sleep, thread start/join, simulated
I/O, optional line event), where the scheduler -- running inside the yielding
thread -- asks the *tape* who continues.  Time is virtual and discrete-event.

Everything nondeterministic is decided by `Tape.choose`; a recorded tape
replays a run exactly, independent of the seed that produced it.

The module must be `install()`ed before the code under test is imported.
"""
import _thread
import gc
import heapq
import queue as _queue_mod
import sys
import threading
import time

_real_allocate = _thread.allocate_lock
_real_start = _thread.start_new_thread
_real_get_ident = _thread.get_ident
_real_time = time.time
_real_monotonic = time.monotonic
_real_sleep = time.sleep
_real_localtime = time.localtime
_real_gmtime = time.gmtime
_real_strftime = time.strftime
_RealThread = threading.Thread
_real_RLock = threading.RLock

EPOCH = 1_700_000_000.0      # virtual wall clock at the start of every run
MONO0 = 1000.0               # virtual monotonic clock at the start of every run
TICK = 1e-6                  # every clock read advances time by this much

SIM = None                   # the active simulation of this process


class SimAbort(BaseException):
    """unwinds a task when the simulation is over"""


class SimCrash(BaseException):
    """unwinds a task at an injected crash point (simfs)"""


class HarnessError(Exception):
    """the simulator itself (not the code under test) is in trouble"""


class Tape:
    """the only source of nondeterminism of a run

    generating mode: decisions are drawn from `rng` and recorded
    replay mode: decisions are taken from `replay`; when exhausted or out of
    range the decision is 0, which every caller arranges to be the simplest
    choice (keep running the current task, no latency, no segmentation, ...)
    """

    def __init__(self, rng=None, replay=None):
        self.rng = rng
        self.replay = list(replay) if replay is not None else None
        self.pos = 0
        self.out = []

    def choose(self, n, bias0=0.0, lo=0):
        if n <= 1:
            return 0
        if self.replay is not None:
            if self.pos < len(self.replay):
                v = self.replay[self.pos]
                self.pos += 1
                if not isinstance(v, int) or not 0 <= v < n:
                    v = 0
            else:
                v = 0
        else:
            if bias0 and self.rng.random() < bias0:
                v = 0
            else:
                v = self.rng.randrange(lo, n) if lo < n else 0
        self.out.append(v)
        return v

    def flip(self, p):
        """True with probability p (generating); recorded as 0/1"""
        return bool(self.choose(2, bias0=1.0 - p, lo=1))


class Task:
    __slots__ = ('sim', 'tid', 'name', 'fn', 'baton', 'state', 'pred', 'deadline',
                 'timed_out', 'exc', 'ident', 'thread_obj', 'exited', 'waiting_on',
                 'daemon', 'clock_reads')

    def __init__(self, sim, tid, name, fn):
        self.sim = sim
        self.tid = tid
        self.name = name
        self.fn = fn
        self.baton = _real_allocate()
        self.baton.acquire()
        self.state = 'new'          # runnable / blocked / done
        self.clock_reads = 0        # clock reads since the task last blocked (see _tick)
        self.pred = None
        self.deadline = None
        self.timed_out = False
        self.exc = None
        self.ident = None
        self.thread_obj = None
        self.exited = _real_allocate()
        self.exited.acquire()
        self.waiting_on = None
        self.daemon = True

    def __repr__(self):
        return f'<T{self.tid} {self.name} {self.state}>'


LINE_GAPS = (None, 1, 2, 3, 5, 8, 13, 21, 34, 55, 89, 144, 233, 377, 610, 987, 1597, 2584)


class Sim:
    def __init__(self, tape, p_switch=0.2, line_gap_max=0, trace_files=(),
                 max_steps=1_500_000, max_virtual=None, spin_reads=5000, trace_opcodes=False):
        self.tape = tape
        self.now = EPOCH
        self.wall_offset = 0.0        # wall clock = now + wall_offset (clock step faults)
        self.tasks = []
        self.by_ident = {}
        self.trace = []               # harness-visible event log (frozen at finish)
        self.switch_log = []          # tids in the order they got the baton
        self.p_switch = p_switch
        self.steps = 0
        self.nswitch = 0
        self.nchoice2 = 0             # scheduling decisions with >= 2 candidates
        self.max_steps = max_steps
        self.spin_reads = spin_reads    # clock reads in a row (nothing else done) after which a task counts as spinning
        self.trace_opcodes = bool(trace_opcodes)   # byte code instructions instead of lines as pre-emption points
        self.max_virtual = max_virtual
        self.done = _real_allocate()
        self.done.acquire()
        self.failure = None
        self.finished = False
        self.timers = []
        self._tseq = 0
        self.seq = 0                  # global event sequence number (for histories)
        # line level pre-emption
        self.line_gap_max = min(line_gap_max, len(LINE_GAPS))
        self.trace_files = tuple(trace_files)
        self._line_countdown = None
        self.nline = 0
        self.npreempt = 0
        self.counters = {}            # fault / probe counters

    # ---- bookkeeping helpers for harness code
    def count(self, key, n=1):
        if not self.finished:
            self.counters[key] = self.counters.get(key, 0) + n

    def next_seq(self):
        self.seq += 1
        return self.seq

    def log(self, *ev):
        if self.finished:
            return
        self.trace.append((round(self.now - EPOCH, 6),) + ev)

    def vnow(self):
        """virtual seconds since start, without ticking"""
        return self.now - EPOCH

    # ---- task management
    def spawn(self, fn, name, thread_obj=None):
        t = Task(self, len(self.tasks), name, fn)
        t.thread_obj = thread_obj
        self.tasks.append(t)
        t.state = 'runnable'
        _real_start(self._bootstrap, (t,))
        return t

    def _tracer(self, frame, event, arg):
        if frame.f_code.co_filename.endswith(self.trace_files):
            if self.trace_opcodes:
                # pre-emption inside a line (between the load and the store of 'x -= y' on shared state)
                frame.f_trace_opcodes = True
            return self._ltracer
        return None

    def _ltracer(self, frame, event, arg):
        if (event == 'line' or event == 'opcode') and not self.finished:
            self.nline += 1
            if self._line_countdown is not None:
                self._line_countdown -= 1
                if self._line_countdown <= 0:
                    self._next_line_gap()
                    self.npreempt += 1
                    self._schedule(force=True)
        return self._ltracer

    def _next_line_gap(self):
        i = self.tape.choose(self.line_gap_max, lo=1)
        self._line_countdown = LINE_GAPS[i]

    def _bootstrap(self, t):
        t.baton.acquire()                 # wait for first schedule
        t.ident = _real_get_ident()
        self.by_ident[t.ident] = t
        if t.thread_obj is None:
            th = SimThread(name=t.name)
            th._sim_task = t
            th._started.set()
            t.thread_obj = th
        threading._active[t.ident] = t.thread_obj
        if self.line_gap_max > 1 and self.trace_files:
            sys.settrace(self._tracer)
        try:
            if not self.finished:
                t.fn()
        except SimAbort:
            pass
        except SystemExit as e:
            t.exc = e
        except BaseException as e:      # noqa  (SimCrash and programming errors of the harness)
            t.exc = e
            self.log('task-exc', t.tid, type(e).__name__)
        finally:
            sys.settrace(None)
            threading._active.pop(t.ident, None)
            t.state = 'done'
            if t.tid == 0 and not self.finished:
                self._finish()
            try:
                self._schedule(exiting=True)
            except SimAbort:
                pass
            finally:
                self.by_ident.pop(t.ident, None)
                t.exited.release()

    def cur(self):
        return self.by_ident.get(_real_get_ident())

    # ---- timers (kernel events, run inside whichever thread schedules)
    def call_at(self, when, fn):
        self._tseq += 1
        heapq.heappush(self.timers, (when, self._tseq, fn))

    def call_later(self, delay, fn):
        self.call_at(self.now + max(0.0, delay), fn)

    def _fire_timers(self):
        timers = self.timers
        while timers and timers[0][0] <= self.now:
            _, _, fn = heapq.heappop(timers)
            fn()

    # ---- scheduling
    def _candidates(self):
        res = []
        now = self.now
        for t in self.tasks:
            st = t.state
            if st == 'runnable':
                res.append(t)
            elif st == 'blocked':
                if t.pred is not None and t.pred():
                    res.append(t)
                elif t.deadline is not None and t.deadline <= now:
                    res.append(t)
        return res

    def _schedule(self, exiting=False, force=False):
        """called by the current task thread; picks the next task and hands over"""
        if self.finished:
            if exiting:
                return
            raise SimAbort()
        cur = None if exiting else self.cur()
        self.steps += 1
        if self.steps > self.max_steps:
            self.failure = ('step-limit', self._stacks())
            self._finish()
            if exiting:
                return
            raise SimAbort()
        while True:
            self._fire_timers()
            cands = self._candidates()
            if cands:
                if len(cands) == 1:
                    nxt = cands[0]
                else:
                    self.nchoice2 += 1
                    if cur is not None and cur in cands:
                        cands.remove(cur)
                        cands.insert(0, cur)
                        i = self.tape.choose(len(cands), bias0=0.0 if force else 1.0 - self.p_switch,
                                             lo=1 if force else 0)
                    else:
                        i = self.tape.choose(len(cands))
                    nxt = cands[i]
                break
            # nothing runnable: advance virtual time to the next deadline / timer
            nxt_t = None
            for t in self.tasks:
                if t.state == 'blocked' and t.deadline is not None:
                    if nxt_t is None or t.deadline < nxt_t:
                        nxt_t = t.deadline
            if self.timers and (nxt_t is None or self.timers[0][0] < nxt_t):
                nxt_t = self.timers[0][0]
            if nxt_t is None:
                # every task is blocked for ever
                self.failure = ('deadlock', [(t.name, t.waiting_on) for t in self.tasks
                                             if t.state == 'blocked'])
                self.deadlock_stacks = self._stacks(14)     # diagnostics only
                self._finish()
                nxt = None
                break
            if self.max_virtual is not None and nxt_t - EPOCH > self.max_virtual:
                self.failure = ('virtual-time-limit', self._stacks())
                self._finish()
                nxt = None
                break
            if nxt_t > self.now:
                self.now = nxt_t
        if nxt is None:
            if exiting:
                return
            raise SimAbort()
        if nxt.state == 'blocked':
            nxt.timed_out = not (nxt.pred is not None and nxt.pred())
            nxt.state = 'runnable'
            nxt.pred = None
            nxt.deadline = None
            nxt.waiting_on = None
        if nxt is cur:
            return
        self.nswitch += 1
        self.switch_log.append((self.steps, nxt.tid))
        nxt.baton.release()
        if exiting:
            return
        cur.baton.acquire()
        if self.finished:
            raise SimAbort()

    def _stacks(self, depth=7):
        """where every live task is (for diagnostics of runs that do not terminate)"""
        import traceback
        frames = sys._current_frames()
        res = []
        for t in self.tasks:
            if t.state != 'done' and t.ident in frames:
                st = traceback.extract_stack(frames[t.ident])[-depth:]
                res.append((t.name, t.state, [f'{f.filename.rsplit("/", 2)[-1]}:{f.lineno}:{f.name}' for f in st]))
        return res

    def _finish(self):
        if not self.finished:
            self.finished = True
            me = _real_get_ident()
            for t in self.tasks:
                if t.state != 'done' and t.ident != me:
                    try:
                        t.baton.release()
                    except RuntimeError:
                        pass
            self.done.release()

    def yield_point(self):
        if self.finished:
            raise SimAbort()
        t = self.cur()
        if t is not None:
            t.clock_reads = 0      # the task does something else than reading the clock
        self._schedule()

    def wait_until(self, pred, timeout=None, what=None):
        """block the current task until pred() or virtual timeout; True if pred held"""
        t = self.cur()
        if t is None:
            raise HarnessError('blocking call outside a simulation task')
        if self.finished:
            raise SimAbort()
        t.clock_reads = 0
        if timeout is not None and timeout <= 0:
            self._schedule()
            return bool(pred())
        t.state = 'blocked'
        t.pred = pred
        t.waiting_on = what
        t.deadline = None if timeout is None else self.now + timeout
        self._schedule()
        return not t.timed_out

    def sleep(self, secs):
        self.wait_until(_never, max(secs, 0.0) or 1e-9, what='sleep')

    def jump(self, secs):
        """clock fault: the machine was suspended for <secs> (monotonic and wall jump forward)"""
        self.now += max(0.0, secs)

    def step_wall(self, secs):
        """clock fault: the wall clock is stepped (may go backwards); monotonic unaffected"""
        self.wall_offset += secs

    def run(self, main, wall_timeout=120):
        global SIM
        if SIM is not None:
            raise HarnessError('nested simulation')
        gc_was = gc.isenabled()
        gc.disable()
        SIM = self
        try:
            if self.line_gap_max > 1 and self.trace_files:
                self._next_line_gap()
            t = self.spawn(main, 'main')
            self.switch_log.append((0, 0))
            t.baton.release()
            ok = self.done.acquire(timeout=wall_timeout)
            if not ok:
                self.failure = ('wall-timeout',)
                try:
                    import faulthandler
                    faulthandler.dump_traceback(file=sys.stderr)
                except Exception:
                    pass
                self._finish()
            for t in self.tasks:
                if not t.exited.acquire(timeout=20):
                    self.failure = ('task-stuck', t.name)
        finally:
            SIM = None
            if gc_was:
                gc.enable()
        return self


def _never():
    return False


# ---------------------------------------------------------------- primitives

def _in_sim():
    sim = SIM
    return sim is not None and _real_get_ident() in sim.by_ident


class SimLock:
    __slots__ = ('_locked',)

    def __init__(self):
        self._locked = False

    def acquire(self, blocking=True, timeout=-1):
        sim = SIM
        if sim is None or _real_get_ident() not in sim.by_ident:
            # outside a simulation (between runs, finalizers): trivial lock
            if self._locked:
                if not blocking:
                    return False
                raise RuntimeError('SimLock contention outside simulation')
            self._locked = True
            return True
        sim.yield_point()
        if not self._locked:
            self._locked = True
            return True
        if not blocking:
            return False
        ok = sim.wait_until(self._free, None if timeout is None or timeout < 0 else timeout,
                            what='lock')
        if ok:
            self._locked = True
        return ok

    def _free(self):
        return not self._locked

    def release(self):
        if not self._locked:
            raise RuntimeError('release unlocked lock')
        self._locked = False
        sim = SIM
        if sim is not None and _real_get_ident() in sim.by_ident:
            sim.yield_point()

    def locked(self):
        return self._locked

    __enter__ = acquire

    def __exit__(self, *a):
        self.release()

    def _at_fork_reinit(self):
        self._locked = False


class SimRLock:
    __slots__ = ('_block', '_owner', '_count')

    def __init__(self):
        self._block = SimLock()
        self._owner = None
        self._count = 0

    def acquire(self, blocking=True, timeout=-1):
        me = _real_get_ident()
        if self._owner == me:
            self._count += 1
            return True
        rc = self._block.acquire(blocking, timeout)
        if rc:
            self._owner = me
            self._count = 1
        return rc

    __enter__ = acquire

    def release(self):
        if self._owner != _real_get_ident():
            raise RuntimeError('cannot release un-acquired lock')
        self._count -= 1
        if not self._count:
            self._owner = None
            self._block.release()

    def __exit__(self, *a):
        self.release()

    def _release_save(self):
        state = self._count, self._owner
        self._count = 0
        self._owner = None
        self._block.release()
        return state

    def _acquire_restore(self, state):
        self._block.acquire()
        self._count, self._owner = state

    def _is_owned(self):
        return self._owner == _real_get_ident()

    def _recursion_count(self):
        return self._count if self._owner == _real_get_ident() else 0

    def locked(self):
        return self._block.locked()

    def _at_fork_reinit(self):
        self._block._at_fork_reinit()
        self._owner = None
        self._count = 0


def Lock():
    return SimLock() if _in_sim() else _real_allocate()


def RLock():
    return SimRLock() if _in_sim() else _real_RLock()


class SimThread(_RealThread):
    _sim_task = None

    def start(self):
        if not _in_sim():
            return super().start()
        sim = SIM
        self._sim_task = sim.spawn(self._sim_run, self.name, thread_obj=self)
        self._started.set()
        sim.yield_point()
        return None

    def _sim_run(self):
        try:
            self.run()
        finally:
            self._is_stopped = True

    def join(self, timeout=None):
        t = self._sim_task
        if t is None:
            return super().join(timeout)
        if not _in_sim():
            return None
        t.sim.wait_until(lambda: t.state == 'done', timeout, what=f'join {t.name}')
        return None

    def is_alive(self):
        t = self._sim_task
        if t is None:
            return super().is_alive()
        return t.state != 'done'

    @property
    def ident(self):
        t = self._sim_task
        if t is None:
            return _RealThread.ident.fget(self)
        return t.ident


class _Callable:
    """non-descriptor callable (a plain function stored as a class attribute,
    e.g. logging.Formatter.converter = time.localtime, would get bound)"""
    __slots__ = ('fn', '__name__')

    def __init__(self, fn):
        self.fn = fn
        self.__name__ = fn.__name__

    def __call__(self, *a, **k):
        return self.fn(*a, **k)


SPIN_READS = 5000            # (after the end of a run) a task still reading the clock that often is aborted
SPIN_TICK = 1e-2


def _tick(sim):
    """a clock read costs time; a task that spins on the clock (a loop which never blocks) is pre-empted like on a
    real machine and its reads get coarser, so that the run reaches its horizon"""
    t = sim.by_ident[_real_get_ident()]
    t.clock_reads += 1
    if sim.spin_reads is None or t.clock_reads <= sim.spin_reads:
        sim.now += TICK
        return
    sim.now += SPIN_TICK
    sim.counters['kernel.spinning-task-preempted'] = sim.counters.get('kernel.spinning-task-preempted', 0) + 1
    if sim.finished:
        raise SimAbort()
    sim._schedule()


def _after_end(sim):
    """the run is over: a task still spinning on the clock must end like the tasks blocked in the kernel do"""
    if sim.finished:
        t = sim.by_ident.get(_real_get_ident())
        if t is not None:
            t.clock_reads += 1
            if t.clock_reads > SPIN_READS:
                raise SimAbort()


def sim_time():
    sim = SIM
    if sim is None:
        return _real_time()
    if sim.finished or _real_get_ident() not in sim.by_ident:
        _after_end(sim)
        return sim.now + sim.wall_offset
    _tick(sim)
    return sim.now + sim.wall_offset


def sim_monotonic():
    sim = SIM
    if sim is None:
        return _real_monotonic()
    if sim.finished or _real_get_ident() not in sim.by_ident:
        _after_end(sim)
        return sim.now - EPOCH + MONO0
    _tick(sim)
    return sim.now - EPOCH + MONO0


def sim_sleep(secs):
    if _in_sim():
        SIM.sleep(secs)
    else:
        _real_sleep(secs)


def sim_localtime(secs=None):
    # TZ is pinned to UTC by the runner
    return _real_gmtime(sim_time() if secs is None else secs)


def sim_gmtime(secs=None):
    return _real_gmtime(sim_time() if secs is None else secs)


def sim_strftime(fmt, t=None):
    return _real_strftime(fmt, sim_localtime() if t is None else t)


_installed = False


def install():
    global _installed
    if _installed:
        return
    if 'frappy' in sys.modules:
        raise HarnessError('kernel.install() must run before frappy is imported')
    _installed = True
    threading.Lock = Lock
    threading._allocate_lock = Lock
    threading.RLock = RLock
    threading.Thread = SimThread
    threading._time = _Callable(sim_monotonic)
    time.time = _Callable(sim_time)
    time.monotonic = _Callable(sim_monotonic)
    time.sleep = _Callable(sim_sleep)
    time.localtime = _Callable(sim_localtime)
    time.gmtime = _Callable(sim_gmtime)
    time.strftime = _Callable(sim_strftime)
    _queue_mod.time = _Callable(sim_monotonic)
