"""simulated storage: interposed open / os.rename / os.remove / os.makedirs over a
real scratch directory, with one planned fault per run segment:

 error         operation i raises OSError(errno) without effect
 torn          (writes) a prefix reaches the file, then OSError; else like error
 crash_before  the process dies before operation i
 crash_after   the process dies right after operation i completed
 crash_torn    (writes) a prefix reaches the file, then the process dies

Crash model: process crash -- every completed system call survives.  After a
crash every further operation of the dying process has no effect (finally:
blocks unwind, but nothing they do reaches the disk).
"""
import builtins
import errno as _errno
import os as _os
import types

from sim import kernel

_real_open = builtins.open


class SimFile:
    def __init__(self, fs, path, mode, real):
        self.fs = fs
        self.path = path
        self.mode = mode
        self.real = real
        self.closed = False
        self.buf = []

    def write(self, text):
        fault = self.fs.op('write', self.path)
        if self.fs.buffered:
            # like Python's buffered text I/O: nothing reaches the disk before flush / close
            if fault in ('torn', 'crash_torn'):
                self.fs.after_fault(fault)
            self.buf.append(text)
            self.fs.done()
            return len(text)
        if fault in ('torn', 'crash_torn'):
            cut = max(0, min(len(text) - 1, int(len(text) * self.fs.plan.get('frac', 0.5))))
            self.real.write(text[:cut])
            self.real.flush()
            self.fs.after_fault(fault)
        n = self.real.write(text)
        self.real.flush()      # unbuffered model: what was written is in the file
        self.fs.done()
        return n

    def read(self, *a):
        self.fs.op('read', self.path)
        data = self.real.read(*a)
        self.fs.done()
        return data

    def __iter__(self):
        return iter(self.real)

    def _drain(self, frac=None):
        if self.buf:
            text = ''.join(self.buf)
            self.buf = []
            if frac is not None:
                text = text[:max(0, min(len(text) - 1, int(len(text) * frac)))]
            self.real.write(text)
        self.real.flush()

    def flush(self):
        self._drain()

    def close(self):
        if self.closed:
            return
        try:
            fault = self.fs.op('close', self.path)
            if fault in ('torn', 'crash_torn') and 'r' not in self.mode:
                self._drain(self.fs.plan.get('frac', 0.5))
                self.fs.after_fault(fault)
            if 'r' not in self.mode:
                self._drain()
        finally:
            self.closed = True
            self.buf = []
            self.real.close()
        self.fs.done()

    def __enter__(self):
        return self

    def __exit__(self, *exc):
        self.close()
        return False


class SimFS:
    def __init__(self, sim, root):
        self.sim = sim
        self.root = root
        self.count = 0
        self.log = []
        self.plan = None
        self.crashed = False
        self.fired = None
        self._pending_after = None
        self.buffered = False     # True: written data reaches the disk only at flush / close
        self.yield_ops = False    # True: every operation is a scheduling point (several tasks using the files)
        self.on_done = None       # called after every completed operation
        self.os = types.SimpleNamespace(
            rename=self.rename, replace=self.rename, remove=self.remove, unlink=self.remove,
            makedirs=self.makedirs, scandir=self.scandir, path=_os.path, sep=_os.sep, fspath=_os.fspath,
            listdir=_os.listdir, symlink=self.symlink, access=_os.access, R_OK=_os.R_OK, W_OK=_os.W_OK,
            getpid=_os.getpid, name=_os.name, environ=_os.environ, fsync=lambda fd: None, stat=_os.stat)

    def reset(self, plan=None):
        self.count = 0
        self.log = []
        self.plan = plan
        self.crashed = False
        self.fired = None
        self._pending_after = None

    # ---- fault machinery
    def op(self, kind, path):
        """called before an operation; returns the fault kind the caller has to apply itself
        ('torn', 'crash_torn', 'crash_after') or None"""
        if self.crashed:
            raise kernel.SimCrash()
        if self.yield_ops:
            self.sim.yield_point()      # several tasks work on the files: every operation is a scheduling point
        idx = self.count
        self.count += 1
        self.log.append((idx, kind, _os.path.basename(str(path))))
        plan = self.plan
        if plan is None or plan.get('at') != idx:
            return None
        f = plan['kind']
        self.fired = (idx, kind, f)
        self.sim.count(f'fs.{f}')
        tearable = kind == 'write' or (kind == 'close' and self.buffered)
        if f == 'error' or (f == 'torn' and not tearable):
            raise OSError(plan.get('errno', _errno.ENOSPC), _os.strerror(plan.get('errno', _errno.ENOSPC)), str(path))
        if f == 'crash_before' or (f == 'crash_torn' and not tearable):
            self.crashed = True
            raise kernel.SimCrash()
        if f == 'crash_after':
            self._pending_after = True
            return None
        return f          # torn / crash_torn on a write

    def after_fault(self, fault):
        if fault == 'torn':
            raise OSError(self.plan.get('errno', _errno.ENOSPC), 'No space left on device')
        self.crashed = True
        raise kernel.SimCrash()

    def done(self):
        """called after an operation completed"""
        if self.on_done is not None:
            self.on_done()
        if self._pending_after:
            self._pending_after = None
            self.crashed = True
            raise kernel.SimCrash()

    # ---- interposed calls
    def open(self, path, mode='r', *args, **kwds):
        self.op('open', path)
        real = _real_open(path, mode, *args, **kwds)
        self.done_or_close(real)
        return SimFile(self, path, mode, real)

    def done_or_close(self, real):
        try:
            self.done()
        except BaseException:
            real.close()
            raise

    def rename(self, src, dst):
        self.op('rename', dst)
        _os.rename(src, dst)
        self.done()

    def remove(self, path):
        self.op('remove', path)
        _os.remove(path)
        self.done()

    def symlink(self, src, dst):
        self.op('symlink', dst)
        _os.symlink(src, dst)
        self.done()

    def makedirs(self, path, *a, **k):
        self.op('makedirs', path)
        _os.makedirs(path, *a, **k)
        self.done()

    def scandir(self, path):
        self.op('scandir', path)
        return _os.scandir(path)
