"""simulated socketserver.ThreadingTCPServer

frappy.protocol.interface.tcp gets this module as its `socketserver` global:
the real TCPServer (constructor with its bind retries, context manager) and the
real Server.run / _interfaceThread run on top of it.  Binding goes to the
simulated network: a port held by another listener gives EADDRINUSE, every
accepted connection gets the real request handler in its own task.
"""
import errno
import socket as _real_socket
import threading
import types

from sim import kernel, net as simnet


def _never():
    return False


class _ListenSocket:
    def __init__(self):
        self.closed = False

    def setsockopt(self, *a):
        pass

    def close(self):
        self.closed = True

    def fileno(self):
        return -1 if self.closed else 3


class ThreadingTCPServer:
    address_family = _real_socket.AF_INET
    socket_type = _real_socket.SOCK_STREAM
    allow_reuse_address = False
    daemon_threads = False
    request_queue_size = 5

    def __init__(self, server_address, RequestHandlerClass, bind_and_activate=True):
        self.server_address = server_address
        self.RequestHandlerClass = RequestHandlerClass
        self.socket = _ListenSocket()
        self._listener = None
        self._shutdown_request = False
        self._serving = False
        self.handler_recs = []
        if bind_and_activate:
            try:
                self.server_bind()
                self.server_activate()
            except BaseException:
                self.server_close()
                raise

    # -- the calls DualStackTCPServer / TCPServer make
    def server_bind(self):
        sim = kernel.SIM
        net = simnet._net()
        port = self.server_address[1]
        sim.yield_point()
        sim.count('net.bind-attempt')
        holder = net.listeners.get(port)
        if self.socket.closed:
            raise OSError(errno.EBADF, 'Bad file descriptor')
        if holder is not None and holder.accept:
            sim.count('fault.bind-address-in-use')
            raise OSError(errno.EADDRINUSE, 'Address already in use')
        self._port = port

    def server_activate(self):
        net = simnet._net()
        self._listener = net.listen(self._port, self._accept)
        self._listener.owner = self
        self._log('open')

    def _log(self, what):
        net = simnet._net()
        if not hasattr(net, 'listen_log'):
            net.listen_log = []
        net.listen_log.append((kernel.SIM.next_seq(), kernel.SIM.vnow(), self._port, what))

    def _accept(self, sock, addr):
        world_handlers = self.handler_recs
        rec = {'idx': len(world_handlers), 'sock': sock, 'handler': None, 'done': False}
        world_handlers.append(rec)
        sock.handler_rec = rec

        def body():
            try:
                rec['handler'] = self.RequestHandlerClass(sock, addr, self)
            except Exception as e:   # noqa  (socketserver.handle_error would log it)
                rec['exc'] = repr(e)
            finally:
                rec['done'] = True
                try:
                    sock.close()
                except OSError:
                    pass
        th = threading.Thread(target=body, name=f'conn-{self._port}-{rec["idx"]}')
        rec['thread'] = th
        th.start()

    def serve_forever(self, poll_interval=0.5):
        sim = kernel.SIM
        if self.socket.closed or self._listener is None:
            # what select() says about the closed listening socket of the real thing
            raise ValueError('Invalid file descriptor: -1')
        self._serving = True
        try:
            # like socketserver: the shutdown request is looked at once per poll interval
            while not self._shutdown_request:
                sim.wait_until(_never, poll_interval, what=f'serve_forever {self._port}')
        finally:
            self._shutdown_request = False
            self._serving = False

    def shutdown(self):
        """blocks until serve_forever has returned (as socketserver.BaseServer.shutdown does)"""
        self._shutdown_request = True
        sim = kernel.SIM
        sim.yield_point()
        if self._serving:
            sim.wait_until(lambda: not self._serving, None, what=f'shutdown {self._port}')

    def server_close(self):
        self.socket.close()
        lst = self._listener
        if lst is not None:
            net = simnet._net()
            if net.listeners.get(self._port) is lst:
                del net.listeners[self._port]
            lst.accept = False
            self._listener = None
            self._log('close')

    def __enter__(self):
        return self

    def __exit__(self, *args):
        self.server_close()


shim = types.SimpleNamespace(ThreadingTCPServer=ThreadingTCPServer, TCPServer=ThreadingTCPServer)
