"""generated module classes with a recording fake driver

A module *spec* is a JSON-able dict (so it lives in cases / replay files):

 {'name': 'm0', 'base': 'Module'|'Readable'|'Writable'|'Drivable', 'export': True,
  'pollinterval': 1.0, 'enablePoll': True, 'omit': None|float,
  'params': [{'name': 'p0', 'di': <datainfo>, 'readonly': bool, 'constant': <wire>|None,
              'export': True|False|'_name', 'read': bool, 'write': bool, 'default': <wire>,
              'limits': None|'min'|'max'|'minmax'|'limits', 'veto': None|<wire number>,
              'unchanged': 'default'|'always'|'never'|<float>}],
  'cmds': [{'name': 'c0', 'arg': <datainfo>|None, 'result': <datainfo>|None, 'export': True|False}]}

The hardware behind every module is a Driver: a register per parameter and a
script of outcomes per driver function.
"""
import threading
import time

from sim import dtgen, kernel

from frappy.core import Command, Drivable, Feature, Limit, Module, Parameter, Readable, Writable
from frappy.datatypes import FloatRange
from frappy.errors import CommunicationFailedError, HardwareError, RangeError, \
    SilentCommunicationFailedError

BASES = {'Module': Module, 'Readable': Readable, 'Writable': Writable, 'Drivable': Drivable}


class HasGenA(Feature):
    """generated feature (a mixin with Feature as direct base class is reported in the module property 'features')"""


class HasGenB(Feature):
    """another generated feature"""


FEATURES = {'HasGenA': HasGenA, 'HasGenB': HasGenB}
NUMERIC = ('double', 'int', 'scaled')


class DriverBug(Exception):
    pass


class Driver:
    """scripted hardware: registers + outcome scripts + call log"""

    def __init__(self, sim, scripts=None, yield_in_calls=True):
        self.sim = sim
        self.reg = {}               # (mod, pname) -> python value
        self.di = {}                # (mod, pname) -> datainfo
        self.scripts = scripts or {}   # 'mod.func' -> list of [duration, outcome]
        self.counts = {}
        self.calls = []             # recorded driver calls
        self.mods = {}
        self.yield_in_calls = yield_in_calls
        self.override = {}          # (mod, func) -> python value to return once
        self.percall = {}           # thread name -> {'out': outcome, 'ret': value, 'token': n} for its next call

    def outcome(self, mod, func):
        pc = self.percall.get(threading.current_thread().name)
        if pc is not None and 'out' in pc:
            return 0.0, pc['out']
        key = f'{mod}.{func}'
        script = self.scripts.get(key) or self.scripts.get(f'*.{func}')
        k = self.counts.get(key, 0)
        self.counts[key] = k + 1
        if not script:
            return 0.0, 'ok'
        dur, out = script[k % len(script)]
        return dur, out

    def record(self, **ev):
        sim = self.sim
        if sim.finished:
            return None
        ev['seq'] = sim.next_seq()
        ev['t'] = sim.vnow()
        ev['task'] = threading.current_thread().name
        self.calls.append(ev)
        return ev

    def limits_snapshot(self, modobj, pname):
        snap = {}
        for post in ('min', 'max', 'limits'):
            n = f'{pname}_{post}'
            if n in modobj.parameters:
                v = modobj.parameters[n].value
                snap[post] = list(v) if isinstance(v, (tuple, list)) else v
        return snap

    def _behave(self, modobj, func):
        dur, out = self.outcome(modobj.name, func)
        if self.yield_in_calls:
            self.sim.yield_point()
        if dur:
            time.sleep(dur)
        return out

    def _raise(self, out, what):
        if out in ('tok', 'tok_same'):
            pc = self.percall.get(threading.current_thread().name) or {}
            raise HardwareError(f'hw tok{pc.get("token")}')
        if out == 'secop':
            raise HardwareError(f'hw failure in {what}')
        if out == 'secop2':
            raise HardwareError(f'another hw failure in {what}')
        if out == 'range':
            raise RangeError(f'driver refuses {what}')
        if out == 'silent':
            raise SilentCommunicationFailedError(f'silent {what}')
        if out == 'comfail':
            raise CommunicationFailedError(f'no connection in {what}')
        if out == 'exc':
            raise ZeroDivisionError(f'bug in {what}')
        if out == 'exc2':
            raise DriverBug(what)

    def read(self, modobj, pname):
        ev = self.record(kind='read', mod=modobj.name, name=pname)
        out = self._behave(modobj, 'read_' + pname)
        if ev is not None:
            ev['outcome'] = out
            ev['t_end'] = self.sim.vnow()
            ev['seq_end'] = self.sim.next_seq()
        self._raise(out, f'read_{pname}')
        if out == 'invalid':
            return object()
        if out == 'invalidstr':
            return 'not a valid value \0'
        if out == 'inc':
            self.reg[modobj.name, pname] = self.reg[modobj.name, pname] + 1
        if (modobj.name, 'read_' + pname) in self.override:
            self.reg[modobj.name, pname] = self.override.pop((modobj.name, 'read_' + pname))
        pc = self.percall.get(threading.current_thread().name)
        if pc is not None and 'ret' in pc:
            self.reg[modobj.name, pname] = pc['ret']
            return pc['ret']
        return self.reg[modobj.name, pname]

    def write(self, modobj, pname, value):
        di = self.di[modobj.name, pname]
        try:
            wire = dtgen.to_wire(di, value)
        except Exception as e:   # noqa
            wire = f'<unexportable {value!r}: {e!r}>'
        ev = self.record(kind='write', mod=modobj.name, name=pname, arg=wire, argtype=type(value).__name__,
                         limits=self.limits_snapshot(modobj, pname),
                         current=self._cur(modobj, pname))
        out = self._behave(modobj, 'write_' + pname)
        if ev is not None:
            ev['outcome'] = out
            ev['t_end'] = self.sim.vnow()
            ev['seq_end'] = self.sim.next_seq()
        self._raise(out, f'write_{pname}')
        self.reg[modobj.name, pname] = value
        if out == 'none':
            return None
        if (modobj.name, 'write_' + pname) in self.override:
            value = self.reg[modobj.name, pname] = self.override.pop((modobj.name, 'write_' + pname))
        pc = self.percall.get(threading.current_thread().name)
        if pc is not None and 'ret' in pc:
            value = self.reg[modobj.name, pname] = pc['ret']
        return value

    def _cur(self, modobj, pname):
        try:
            return dtgen.to_wire(self.di[modobj.name, pname], modobj.parameters[pname].value)
        except Exception:   # noqa
            return None

    def command(self, modobj, cname, args, result_di):
        ev = self.record(kind='cmd', mod=modobj.name, name=cname, arg=args)
        out = self._behave(modobj, cname)
        if ev is not None:
            ev['outcome'] = out
        self._raise(out, cname)
        if result_di is None:
            return None
        return self.reg.get((modobj.name, 'cmd:' + cname))


def _wire_args(di, argument):
    try:
        return dtgen.to_wire(di, argument)
    except Exception as e:    # noqa
        return f'<unexportable {argument!r}: {e!r}>'


def make_class(spec, drv, tag='', parent=None):
    ns = {'__module__': __name__}
    late_ns = {}
    base = BASES[spec.get('base', 'Module')]
    mname = spec['name']
    for p in spec.get('params', ()):
        pname = p['name']
        di = p['di']
        dt = dtgen.build_datatype(di)
        kw = {'readonly': bool(p.get('readonly', True))}
        if p.get('default') is not None:
            kw['default'] = dtgen.to_internal(di, p['default'])
        if p.get('constant') is not None and not p.get('constant_cfg'):
            kw['constant'] = dtgen.to_internal(di, p['constant'])
        exp = p.get('export', True)
        if exp is not True:
            kw['export'] = exp
        unch = p.get('unchanged', 'default')
        if unch != 'default':
            kw['update_unchanged'] = unch
        if pname in ('value', 'target', 'status', 'pollinterval'):
            kw.pop('readonly', None) if pname != 'target' else None
            ns[pname] = Parameter(datatype=dt, **kw)
        else:
            ns[pname] = Parameter(f'generated parameter {pname}', dt, **kw)
        drv.di[mname, pname] = di
        if p.get('hw') is not None:
            # the hardware register differs from the declared default / constant
            drv.reg[mname, pname] = dtgen.to_internal(di, p['hw'])
        elif p.get('default') is not None:
            drv.reg[mname, pname] = dtgen.to_internal(di, p['default'])
        elif p.get('init') is not None:
            drv.reg[mname, pname] = dtgen.to_internal(di, p['init'])
        if p.get('read'):
            def rf(self, pname=pname):
                return drv.read(self, pname)
            rf.__name__ = 'read_' + pname
            if p.get('nopoll'):
                rf.poll = False
            ns['read_' + pname] = rf
        if p.get('write'):
            def wf(self, value, pname=pname):
                return drv.write(self, pname, value)
            wf.__name__ = 'write_' + pname
            ns['write_' + pname] = wf
        lim = p.get('limits')
        if lim and di['type'] in NUMERIC:
            # 'split': the limit parameters are declared in a subclass of the class which declares the parameter
            # (and its check hook)
            where = late_ns if p.get('split') else ns
            if lim in ('min', 'minmax'):
                where[pname + '_min'] = Limit()
            if lim in ('max', 'minmax'):
                where[pname + '_max'] = Limit()
            if lim == 'limits':
                where[pname + '_limits'] = Limit()
        if p.get('veto') is not None:
            veto = dtgen.to_internal(di, p['veto'])

            def cf(self, value, pname=pname, veto=veto):
                drv.record(kind='check', mod=self.name, name=pname)
                if value > veto:
                    raise RangeError(f'{pname} vetoed above {veto}')
            ns['check_' + pname] = cf
    for c in spec.get('cmds', ()):
        cname = c['name']
        arg = dtgen.build_datatype(c['arg']) if c.get('arg') else None
        res = dtgen.build_datatype(c['result']) if c.get('result') else None
        kw = {}
        if c.get('export', True) is not True:
            kw['export'] = c['export']

        def make(cname=cname, c=c):
            adi = c.get('arg')
            if adi and adi['type'] == 'tuple':
                def f(self, *args):
                    return drv.command(self, cname, _wire_args(adi, args), c.get('result'))
            elif adi and adi['type'] == 'struct':
                def f(self, **kwds):
                    return drv.command(self, cname, _wire_args(adi, kwds), c.get('result'))
            elif adi:
                def f(self, arg):
                    return drv.command(self, cname, _wire_args(adi, arg), c.get('result'))
            else:
                def f(self):
                    return drv.command(self, cname, None, c.get('result'))
            f.__name__ = cname
            f.__doc__ = f'generated command {cname}'
            return f
        if c.get('arg') and c['arg']['type'] == 'struct':
            # Command() insists that the function's argument names equal the struct members
            members = list(c['arg']['members'])
            opt = dtgen._opt(c['arg'])
            sig = ', '.join(f'{m}=None' if m in opt else m for m in
                            [m for m in members if m not in opt] + [m for m in members if m in opt])
            src = (f'def {cname}(self, {sig}):\n'
                   f'    "generated command {cname}"\n'
                   f'    kwds = dict({", ".join(f"{m}={m}" for m in members)})\n'
                   f'    kwds = {{k: v for k, v in kwds.items() if v is not None}}\n'
                   f'    return _drv.command(self, {cname!r}, _wa(_adi, kwds), _res)\n')
            env = {'_drv': drv, '_wa': _wire_args, '_adi': c['arg'], '_res': c.get('result')}
            exec(src, env)   # pylint: disable=exec-used
            func = env[cname]
        else:
            func = make()
        ns[cname] = Command(arg, result=res, **kw)(func)
        if c.get('result'):
            drv.reg[mname, 'cmd:' + cname] = dtgen.to_internal(c['result'], c['result_value'])
    if 'enablePoll' in spec:
        ns['enablePoll'] = spec['enablePoll']
    # 'features': feature mixins; <parent>: the class of another generated module this one is derived from
    bases = tuple(FEATURES[f] for f in spec.get('features', ())) + (parent or base,)
    if spec.get('late_limits'):
        # the module learns the limits of a parameter from its hardware when it is started (as e.g. the entangle
        # modules do): the datatype is adjusted in startModule, after the node was built
        ll = spec['late_limits']

        def startModule(self, start_events):
            self.parameters[ll['p']].datatype.set_properties(min=ll['min'], max=ll['max'])
            return super(cls_holder[0], self).startModule(start_events)
        cls_holder = []
        ns['startModule'] = startModule
    cls = type(f'Gen_{mname}{tag}', bases, ns)
    if spec.get('late_limits'):
        cls_holder.append(cls)
    if late_ns:
        late_ns['__module__'] = __name__
        cls = type(f'Gen_{mname}{tag}_sub', (cls,), late_ns)
    drv.mods[mname] = cls
    return cls


def module_cfg(spec, cls):
    cfg = {'cls': cls, 'description': f'generated module {spec["name"]}'}
    if not spec.get('export', True):
        cfg['export'] = False
    if spec.get('pollinterval') is not None and spec.get('base', 'Module') != 'Module':
        cfg['pollinterval'] = {'value': spec['pollinterval']}
    elif spec.get('pollinterval') is not None:
        cfg['pollinterval'] = spec['pollinterval']
    if spec.get('slowinterval') is not None:
        cfg['slowinterval'] = spec['slowinterval']
    if spec.get('omit') is not None:
        cfg['omit_unchanged_within'] = spec['omit']
    for p in spec['params']:
        # a parameter pinned to a constant by the configuration instead of by the class ('inf': as one writes
        # "no limit" in a configuration file; a double is described as the largest finite number then)
        if p.get('constant') is not None and p.get('constant_cfg'):
            cfg.setdefault(p['name'], {})
            raw = p['constant_cfg']
            cfg[p['name']]['constant'] = float(raw) if raw in ('inf', '-inf') else dtgen.to_internal(p['di'], p['constant'])
    for p in spec['params']:
        # a parameter which is changeable in the class, locked by the configuration
        if p.get('cfg_readonly'):
            cfg.setdefault(p['name'], {})
            if not isinstance(cfg[p['name']], dict):
                cfg[p['name']] = {'value': cfg[p['name']]}
            cfg[p['name']]['readonly'] = True
    for p in spec['params']:
        # the export property of a parameter given in the configuration (True, False or another wire name)
        if p.get('cfg_export') is not None:
            cfg.setdefault(p['name'], {})
            if not isinstance(cfg[p['name']], dict):
                cfg[p['name']] = {'value': cfg[p['name']]}
            cfg[p['name']]['export'] = p['cfg_export']
    return cfg


# ------------------------------------------------------------------ spec generator

def gen_param(rng, name, depth=2, writable_p=0.6, kinds=None):
    di = dtgen.gen_datainfo(rng, depth) if kinds is None else kinds(rng)
    p = {'name': name, 'di': di, 'readonly': rng.random() > writable_p, 'default': dtgen.valid_wire(rng, di),
         'read': rng.random() < 0.7, 'write': False, 'export': True, 'constant': None, 'limits': None,
         'veto': None, 'unchanged': 'default'}
    if not p['readonly']:
        p['write'] = rng.random() < 0.85
    return p


def gen_module_spec(rng, name, depth=2, nparams=None, full=False, constants='simple', constants_read=False):
    base = rng.choice(['Module', 'Readable', 'Writable', 'Drivable'])
    spec = {'name': name, 'base': base, 'export': True, 'params': [], 'cmds': [],
            'pollinterval': rng.choice([0.5, 1.0, 3.0])}
    if base != 'Module':
        lo = rng.choice([-100.0, 0.0])
        vdi = {'type': 'double', 'min': lo, 'max': lo + 1000.0}
        spec['params'].append({'name': 'value', 'di': vdi, 'read': True, 'write': False, 'readonly': True,
                               'default': None, 'init': dtgen.valid_wire(rng, vdi), 'export': True})
        if base in ('Writable', 'Drivable'):
            tdi = {'type': 'double', 'min': lo + 100.0, 'max': lo + 900.0}
            p = {'name': 'target', 'di': tdi, 'read': rng.random() < 0.5, 'write': True, 'readonly': False,
                 'default': dtgen.valid_wire(rng, tdi), 'export': True}
            if full:
                p['limits'] = rng.choice([None, 'min', 'max', 'minmax', 'limits'])
            spec['params'].append(p)
    n = rng.randrange(1, 4) if nparams is None else nparams
    for i in range(n):
        p = gen_param(rng, f'p{i}', depth)
        if full:
            r = rng.random()
            if r < 0.12 and (constants == 'all' or p['di']['type'] in ('double', 'int', 'bool', 'string', 'enum')):
                p['constant'] = p['default']
                p['read'] = p['write'] = False
                if constants == 'all' and rng.random() < 0.4:
                    p['constant_cfg'] = 'value'      # given in the configuration, not in the class
                    if p['di']['type'] == 'double' and 'max' not in p['di'] and rng.random() < 0.5:
                        p['constant_cfg'] = 'inf'
                        p['constant'] = p['default'] = 1.7976931348623157e+308
                    elif p['di']['type'] == 'double' and 'min' not in p['di'] and rng.random() < 0.3:
                        p['constant_cfg'] = '-inf'
                        p['constant'] = p['default'] = -1.7976931348623157e+308
                if constants_read and rng.random() < 0.5:
                    # the class has a hardware read method for a parameter which is pinned to a constant
                    p['read'] = True
                    p['hw'] = dtgen.valid_wire(rng, p['di'])
            elif r < 0.24:
                p['export'] = False
            elif r < 0.3:
                p['export'] = f'_x{i}'
            if p['di']['type'] in NUMERIC and not p['readonly'] and rng.random() < 0.5:
                p['limits'] = rng.choice(['min', 'max', 'minmax', 'limits'])
            if p['di']['type'] in NUMERIC and not p['readonly'] and not p['limits'] and rng.random() < 0.3:
                p['veto'] = dtgen.valid_wire(rng, p['di'])
            elif p['di']['type'] in NUMERIC and not p['readonly'] and p['limits'] and rng.random() < 0.3:
                # a hand-written check hook in the base class, the limits declared in a subclass: both apply
                p['veto'] = dtgen.valid_wire(rng, p['di'])
                p['split'] = True
            p['unchanged'] = rng.choice(['default', 'default', 'always', 'never', 0.5])
        spec['params'].append(p)
    if full:
        for i in range(rng.randrange(0, 3)):
            arg = rng.choice([None, dtgen.gen_datainfo(rng, 1), dtgen.gen_datainfo(rng, 1)])
            res = rng.choice([None, dtgen.gen_datainfo(rng, 1)])
            c = {'name': f'c{i}', 'arg': arg, 'result': res, 'export': rng.random() > 0.15}
            if res:
                c['result_value'] = dtgen.valid_wire(rng, res)
            spec['cmds'].append(c)
    return spec
