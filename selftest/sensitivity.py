#!/venv/bin/python
"""sensitivity self-test: break a property on purpose in a scratch copy of /repo
and require the check to report a violation within its quick budget.

usage: sensitivity.py [ID ...] [mutant names ...] [--runs=N] [--tier=quick|thorough] [--list]
Each mutant is (property, name, file, old text, new text); the changes written by
sub-agents (seeded/<name>/patch.diff, names 'seeded/<name>') are run as well.  The scratch copy
lives under /dev/shm and is removed afterwards; /repo is never touched.
"""
import os
import shutil
import subprocess
import sys
import tempfile

VERIF = os.path.dirname(os.path.dirname(os.path.abspath(__file__)))

M = []


def mutant(prop, name, file, old, new):
    M.append((prop, name, file, old, new))


# ---------------------------------------------------------------- C13
mutant('C13', 'catch-only-secop', 'frappy/modulebase.py',
       "                self.pollInfo.pending_errors.discard(rfunc.__name__)\n        except Exception as e:",
       "                self.pollInfo.pending_errors.discard(rfunc.__name__)\n        except SECoPError as e:")
mutant('C13', 'slow-poll-never-refilled', 'frappy/modulebase.py',
       "                            pinfo.last_slow = (now // mobj.slowinterval) * mobj.slowinterval",
       "                            pinfo.last_slow = now + 1e9")
mutant('C13', 'nopoll-ignored', 'frappy/modulebase.py',
       "                if rfunc.poll:\n                    pinfo.polled_parameters.append",
       "                if True:\n                    pinfo.polled_parameters.append")
mutant('C13', 'interval-change-no-trigger', 'frappy/modulebase.py',
       "            self.interval = pollinterval\n            self.trigger()",
       "            self.interval = pollinterval")
mutant('C13', 'trigger-immediate-ignored', 'frappy/modulebase.py',
       "        if immediate:\n            self.last_main = 0",
       "        if immediate:\n            pass")
mutant('C13', 'last-main-advanced-twice', 'frappy/modulebase.py',
       "                        pinfo.last_main = (now // pinfo.interval) * pinfo.interval",
       "                        pinfo.last_main = (now // pinfo.interval) * pinfo.interval + pinfo.interval")
# ---------------------------------------------------------------- C08
mutant('C08', 'no-update-lock-in-activate', 'frappy/protocol/dispatcher.py',
       "            with moduleobj.updateLock:\n                if pname:",
       "            if True:\n                if pname:")
mutant('C08', 'idn-keeps-subscriptions', 'frappy/protocol/dispatcher.py',
       "        self.reset_connection(conn)\n        # The other stuff",
       "        # The other stuff")
mutant('C08', 'unsubscribe-keeps-param-entries', 'frappy/protocol/dispatcher.py',
       "                if k.startswith(f'{eventname}:'):\n                    v.discard(conn)",
       "                if k.startswith(f'{eventname}:'):\n                    pass")
mutant('C08', 'snapshot-before-subscribe-global', 'frappy/protocol/dispatcher.py',
       "            self._active_connections.add(conn)\n            modules = [(m, None) for m in self.secnode.export]",
       "            modules = [(m, None) for m in self.secnode.export]\n            self._late_add = conn")
mutant('C08', 'remove-connection-keeps-active', 'frappy/protocol/dispatcher.py',
       "        self.set_all_log_levels(conn, 'off')\n        self._active_connections.discard(conn)",
       "        self.set_all_log_levels(conn, 'off')")
mutant('C08', 'snapshot-skips-last-param', 'frappy/protocol/dispatcher.py',
       "                for pobj in moduleobj.accessibles.values():\n                    if isinstance(pobj, Parameter) and pobj.export:\n                        conn.send_reply",
       "                for pobj in list(moduleobj.accessibles.values())[:-1]:\n                    if isinstance(pobj, Parameter) and pobj.export:\n                        conn.send_reply")
# ---------------------------------------------------------------- C05
mutant('C05', 'recovery-not-a-change', 'frappy/modulebase.py',
       "                    changed = pobj.value != value or pobj.readerror",
       "                    changed = pobj.value != value")
mutant('C05', 'no-update-lock', 'frappy/modulebase.py',
       "        with self.updateLock:\n            pobj = self.parameters[pname]",
       "        if True:\n            pobj = self.parameters[pname]")
mutant('C05', 'error-cleared-late', 'frappy/modulebase.py',
       "            pobj.timestamp = timestamp or time.time()\n            pobj.readerror = err\n",
       "            pobj.timestamp = timestamp or time.time()\n")
mutant('C05', 'repeated-error-compares-class-only', 'frappy/modulebase.py',
       "                if secop_error(err) == pobj.readerror:",
       "                if type(secop_error(err)) == type(pobj.readerror):")
mutant('C05', 'notify-before-store', 'frappy/modulebase.py',
       "                    # store the value even in case of error\n                    pobj.value = value",
       "                    # store the value even in case of error\n                    pass")
mutant('C05', 'write-wrapper-skips-announce-on-none', 'frappy/modulebase.py',
       "                                new_value = value if new_value is None else validate(new_value)",
       "                                if new_value is None:\n                                    return value\n                                new_value = validate(new_value)")
# ---------------------------------------------------------------- C07
mutant('C07', 'split-on-cr', 'frappy/protocol/interface/__init__.py',
       "EOL = b'\\n'", "EOL = b'\\r'")
mutant('C07', 'no-padding-in-decode', 'frappy/protocol/interface/__init__.py',
       "res = msg.strip().decode('utf-8').split(' ', 2) + ['', '']",
       "res = msg.strip().decode('utf-8').split(' ', 2) + ['']")
mutant('C07', 'buffer-not-carried-over', 'frappy/protocol/interface/tcp.py',
       "        self.data += newdata", "        self.data = newdata")
mutant('C07', 'no-strip', 'frappy/protocol/interface/__init__.py',
       "res = msg.strip().decode('utf-8')", "res = msg.decode('utf-8')")
mutant('C07', 'decode-error-no-reply', 'frappy/protocol/interface/handler.py',
       "                    print('--------------------')\n                    print(formatException())\n                    print('--------------------')\n                    print(formatExtendedTraceback(sys.exc_info()))\n                    print('====================')\n                else:",
       "                    continue\n                else:")
mutant('C07', 'reply-without-specifier', 'frappy/protocol/interface/handler.py',
       "                    except SECoPError as err:\n                        result = (\n                            ERRORPREFIX + msg[0],\n                            msg[1],",
       "                    except SECoPError as err:\n                        result = (\n                            ERRORPREFIX + msg[0],\n                            None,")
mutant('C07', 'no-send-lock', 'frappy/protocol/interface/tcp.py',
       "        with self.send_lock:\n            if self.running:", "        if True:\n            if self.running:")
mutant('C07', 'stop-on-decode-error', 'frappy/protocol/interface/tcp.py',
       "            raise DecodeError('exception in receive', raw_msg=message) from e",
       "            self.running = False\n            raise DecodeError('exception in receive', raw_msg=message) from e")
mutant('C07', 'secop-errors-only', 'frappy/protocol/interface/handler.py',
       "                    except Exception as err:\n                        # create Error Obj instead",
       "                    except KeyError as err:\n                        # create Error Obj instead")
mutant('C07', 'deactivate-no-echo', 'frappy/protocol/dispatcher.py',
       "        return (DISABLEEVENTSREPLY, specifier, None) if specifier else (DISABLEEVENTSREPLY, None, None)",
       "        return (DISABLEEVENTSREPLY, None, None)")
mutant('C07', 'help-two-replies', 'frappy/protocol/interface/handler.py',
       "            self.send_reply(('_', f'{idx + 1}', line))", "            self.send_reply((HELPREPLY, f'{idx + 1}', line))")
# ---------------------------------------------------------------- C04
mutant('C04', 'readonly-not-refused', 'frappy/protocol/dispatcher.py',
       "        if pobj.readonly:\n            raise ReadOnlyError(f\"Parameter {modulename}:{pname} can not be changed remotely\")",
       "        if False:\n            raise ReadOnlyError(f\"Parameter {modulename}:{pname} can not be changed remotely\")")
mutant('C04', 'constant-and-readonly-not-refused', 'frappy/protocol/dispatcher.py',
       "        if pobj.constant is not None:\n            raise ReadOnlyError(f\"Parameter {modulename}:{pname} is constant and can not be changed remotely\")\n        if pobj.readonly:",
       "        if pobj.constant is not None and False:\n            raise ReadOnlyError(f\"Parameter {modulename}:{pname} is constant and can not be changed remotely\")\n        if pobj.readonly and pobj.constant is None:")
mutant('C04', 'checks-skipped', 'frappy/modulebase.py',
       "                            for c in check_funcs:\n                                if c(self, value):\n                                    break",
       "                            for c in ():\n                                if c(self, value):\n                                    break")
mutant('C04', 'double-driver-call', 'frappy/modulebase.py',
       "                                new_value = wfunc(self, new_value)\n                                self.log.debug('write_%s(%r) returned %r'",
       "                                wfunc(self, new_value)\n                                new_value = wfunc(self, new_value)\n                                self.log.debug('write_%s(%r) returned %r'")
mutant('C04', 'unexported-reachable', 'frappy/modulebase.py',
       "        if accessible.export:\n            self.accessiblename2attr[accessible.export] = name",
       "        self.accessiblename2attr[accessible.export or ('_' + name)] = name")
mutant('C04', 'scaled-accepts-strings', 'frappy/datatypes.py',
       "            if isinstance(value, (str, bytes)) or int(value) != value:",
       "            if False:")
mutant('C04', 'limits-check-inverted-max', 'frappy/modulebase.py',
       "        if value > max_:\n            raise RangeError(f'{pname} above {pname}_max')",
       "        if value > max_ + 1:\n            raise RangeError(f'{pname} above {pname}_max')")
mutant('C04', 'command-arg-not-validated', 'frappy/params.py',
       "            # verify range\n            self.argument.validate(argument)",
       "            # verify range")
mutant('C04', 'no-previous-for-partial-struct', 'frappy/protocol/dispatcher.py',
       "        value = pobj.datatype.validate(value, previous=pobj.value)",
       "        value = pobj.datatype.validate(value)")
mutant('C04', 'string-maxchars-off-by-one', 'frappy/datatypes.py',
       "        if size > self.maxchars:\n            raise RangeError(\n                f'{shortrepr(value)} must be at most {self.maxchars} chars long!')",
       "        if size > self.maxchars + 1:\n            raise RangeError(\n                f'{shortrepr(value)} must be at most {self.maxchars} chars long!')")
# ---------------------------------------------------------------- C11
mutant('C11', 'no-pending-lock', 'frappy/client/__init__.py',
       "            with self._pending_lock:\n                # the check and the parking must be one step for the rx thread",
       "            if True:\n                # the check and the parking must be one step for the rx thread")
mutant('C11', 'pending-not-requeued', 'frappy/client/__init__.py',
       "                        self.txq.put(self.pending.get())", "                        self.pending.get()")
mutant('C11', 'error-reply-not-mapped', 'frappy/client/__init__.py',
       "                            key = REQUEST2REPLY[action[len(ERRORPREFIX):]], ident",
       "                            key = action[len(ERRORPREFIX):], ident")
mutant('C11', 'cleanup-ignored', 'frappy/client/__init__.py',
       "                while self.cleanup:\n                    entry = self.cleanup.pop()",
       "                while False:\n                    entry = self.cleanup.pop()")
mutant('C11', 'cleanup-iterates-live-dict', 'frappy/client/__init__.py',
       "                    with self._pending_lock:  # the tx thread inserts into active_requests\n                        for key, prev in list(self.active_requests.items()):",
       "                    if True:\n                        for key, prev in self.active_requests.items():")
mutant('C11', 'connect-forgets-waiters', 'frappy/client/__init__.py',
       "            try:\n                while self.active_requests:\n                    _, (_, event, _) = self.active_requests.popitem()\n                    event.set()\n            except KeyError:\n                pass\n            self.txq = queue.Queue(30)",
       "            self.active_requests.clear()\n            self.txq = queue.Queue(30)")
mutant('C11', 'waiters-not-released', 'frappy/client/__init__.py',
       "            while self.active_requests:\n                _, (_, event, _) = self.active_requests.popitem()\n                event.set()\n        except KeyError:\n            pass\n        try:\n            while True:\n                _, event, _ = self.pending.get(block=False)",
       "            while self.active_requests:\n                _, (_, event, _) = self.active_requests.popitem()\n        except KeyError:\n            pass\n        try:\n            while True:\n                _, event, _ = self.pending.get(block=False)")
mutant('C11', 'disconnect-unguarded-join', 'frappy/client/__init__.py',
       "        txthread = self._txthread\n        if txthread and txthread != current_thread():\n            self.txq.put(None)  # shutdown marker\n            txthread.join()",
       "        if self._txthread:\n            self.txq.put(None)  # shutdown marker\n            self._txthread.join()")
mutant('C11', 'reply-to-first-active', 'frappy/client/__init__.py',
       "                    key = action, ident\n                    entry = self.active_requests.pop(key)",
       "                    key = next((k for k in self.active_requests if k and k[0] == action), (action, ident))\n                    entry = self.active_requests.pop(key)")
mutant('C11', 'timeout-20s', 'frappy/client/__init__.py',
       "        if not entry[1].wait(10):  # event", "        if not entry[1].wait(20):  # event")
mutant('C11', 'tx-thread-not-stopped', 'frappy/client/__init__.py',
       "            self.txq.put(None)  # shutdown marker\n            txthread.join()",
       "            pass")
# ---------------------------------------------------------------- C12
mutant('C12', 'future-timestamps-kept', 'frappy/client/__init__.py',
       "                            timestamp = min(now, timestamp)  # no timestamps in the future!",
       "                            pass")
mutant('C12', 'module-callback-dropped', 'frappy/client/__init__.py',
       "        self.callback(module, 'updateItem', module, param, entry)\n", "")
mutant('C12', 'oneshot-not-removed', 'frappy/client/__init__.py',
       "            except UnregisterCallback:\n                cblist.remove(cbfunc)",
       "            except UnregisterCallback:\n                pass")
mutant('C12', 'shorthand-swapped', 'frappy/client/__init__.py',
       "                            if action == WRITEREPLY:\n                                module_param = self.internal.get(f'{ident}:target', None)",
       "                            if action != WRITEREPLY:\n                                module_param = self.internal.get(f'{ident}:target', None)")
mutant('C12', 'scaled-export-truncates', 'frappy/datatypes.py',
       "        return int(round(value / self.scale))\n\n    def import_value(self, value):",
       "        return int(value / self.scale)\n\n    def import_value(self, value):")
mutant('C12', 'error-update-keeps-value-no-error', 'frappy/client/__init__.py',
       "                                readerror = make_secop_error(*data[0:2])\n                                value = None",
       "                                readerror = None\n                                value = None")
mutant('C12', 'raising-callback-stops-others', 'frappy/client/__init__.py',
       "            except Exception as e:\n                if cbname != 'handleError':",
       "            except Exception as e:\n                break\n                if cbname != 'handleError':")
mutant('C12', 'cache-after-callbacks', 'frappy/client/__init__.py',
       "        entry = CacheItem(value, timestamp, readerror, datatype)\n        self.cache[(module, param)] = entry\n        self.callback(None, 'updateItem', module, param, entry)",
       "        entry = CacheItem(value, timestamp, readerror, datatype)\n        self.callback(None, 'updateItem', module, param, entry)")
mutant('C12', 'blob-export-urlsafe', 'frappy/datatypes.py',
       "        return b64encode(value).decode('ascii')", "        return b64encode(value, b'-_').decode('ascii')")
mutant('C12', 'struct-import-drops-member', 'frappy/datatypes.py',
       "        return {str(k): self.members[k].import_value(v)\n                for k, v in value.items()}",
       "        return {str(k): self.members[k].import_value(v)\n                for k, v in list(value.items())[:2]}")
mutant('C12', 'register-no-immediate-callback', 'frappy/client/__init__.py',
       "                    data = self.cache.get(key, None)\n                    if data:  # case single parameter",
       "                    data = None\n                    if data:  # case single parameter")
# ---------------------------------------------------------------- C16
mutant('C16', 'no-lock-in-communicate', 'frappy/io.py',
       "        try:\n            with self._lock:\n                # read garbage and wait before send\n                if self.wait_before and self._eol_write:",
       "        try:\n            if True:\n                # read garbage and wait before send\n                if self.wait_before and self._eol_write:")
mutant('C16', 'no-flush-before-send', 'frappy/io.py',
       "                        if garbage is None:  # read garbage only once\n                            garbage = self._conn.flush_recv()",
       "                        if garbage is None:  # read garbage only once\n                            garbage = b''")
mutant('C16', 'multicomm-without-lock', 'frappy/io.py',
       "        replies = []\n        with self._lock:\n            for request in requests:",
       "        replies = []\n        if True:\n            for request in requests:")
mutant('C16', 'rxbuffer-not-kept-between-chunks', 'frappy/lib/asynconn.py',
       "                return None\n            self._rxbuffer += data\n\n    def readbytes",
       "                return None\n            self._rxbuffer = data\n\n    def readbytes")
mutant('C16', 'callbacks-called-twice', 'frappy/io.py',
       "                self._last_error = 'connected'\n                self.callCallbacks()",
       "                self._last_error = 'connected'\n                self.callCallbacks()\n                self.callCallbacks()")
mutant('C16', 'close-keeps-connected-flag', 'frappy/io.py',
       "        self._last_error = self._last_error or 'disconnected'\n        self.is_connected = False",
       "        self._last_error = self._last_error or 'disconnected'")
mutant('C16', 'rate-limit-local-variable', 'frappy/io.py',
       "                self._last_connect_attempt = now", "                _last_connect_attempt = now")
mutant('C16', 'stringio-multicomm-no-delay', 'frappy/io.py',
       "                if delay:\n                    time.sleep(delay)\n        return replies\n\n\ndef make_regexp",
       "                if delay and False:\n                    time.sleep(delay)\n        return replies\n\n\ndef make_regexp")
mutant('C16', 'timeout-swallowed', 'frappy/lib/asynconn.py',
       "                    raise TimeoutError(f'timeout in readline ({timeout:g} sec)')",
       "                    continue")
mutant('C16', 'readbytes-returns-short', 'frappy/lib/asynconn.py',
       "        while len(self._rxbuffer) < nbytes:\n            data = self.recv()",
       "        while len(self._rxbuffer) < 1:\n            data = self.recv()")
# ---------------------------------------------------------------- C17
mutant('C17', 'write-in-place', 'frappy/persistent.py',
       "            tmpfile = self.persistentFile.parent / (self.persistentFile.name + '.tmp')",
       "            tmpfile = self.persistentFile")
mutant('C17', 'snapshot-remembered-before-write', 'frappy/persistent.py',
       "        if data != self.persistentData:\n            persistentdir",
       "        if data != self.persistentData:\n            self.persistentData = data\n            persistentdir")
mutant('C17', 'rename-inside-with', 'frappy/persistent.py',
       "                    f.write('\\n')\n                os.rename(tmpfile, self.persistentFile)",
       "                    os.rename(tmpfile, self.persistentFile)\n                    f.write('\\n')")
mutant('C17', 'target-removed-on-error', 'frappy/persistent.py',
       "            finally:\n                try:\n                    os.remove(tmpfile)",
       "            except OSError:\n                os.remove(self.persistentFile)\n                raise\n            finally:\n                try:\n                    os.remove(tmpfile)")
mutant('C17', 'load-catches-only-missing', 'frappy/persistent.py',
       "        except (OSError, ValueError):\n            # missing, unreadable or corrupt file",
       "        except FileNotFoundError:\n            # missing, unreadable or corrupt file")
mutant('C17', 'cfg-does-not-override', 'frappy/persistent.py',
       "                if not pobj.given:\n                    if pname in loaded:",
       "                if True:\n                    if pname in loaded:")
mutant('C17', 'one-bad-entry-drops-all', 'frappy/persistent.py',
       "            except Exception as e:\n                # ignore invalid persistent data (in case parameters have changed)\n                self.log.warning('can not restore %r to %r (%r)', pname, value, e)",
       "            except Exception as e:\n                # ignore invalid persistent data (in case parameters have changed)\n                return {}")
mutant('C17', 'blob-export-not-json', 'frappy/persistent.py',
       "        data = {k: v.export_value() for k, v in self.parameters.items()",
       "        data = {k: (v.value if isinstance(v.value, (int, float, str)) else v.export_value()) for k, v in self.parameters.items()")
mutant('C17', 'scaled-stored-as-float', 'frappy/datatypes.py',
       "        return int(round(value / self.scale))\n\n    def import_value(self, value):",
       "        return value\n\n    def import_value(self, value):")
# ---------------------------------------------------------------- C19
mutant('C19', 'budget-with-short-port', 'frappy/protocol/discovery.py',
       "                    if len(self._getMessage(2**16-1)) > MAX_MESSAGE_LEN:\n                        high = mid - 1",
       "                    if len(self._getMessage(80)) > MAX_MESSAGE_LEN:\n                        high = mid - 1")
mutant('C19', 'only-json-errors-caught', 'frappy/protocol/discovery.py',
       "            except (ValueError, RecursionError):", "            except json.JSONDecodeError:")
mutant('C19', 'non-request-ends-loop', 'frappy/protocol/discovery.py',
       "            if not isinstance(request, dict) or request.get('SECoP') != 'discover':\n                continue",
       "            if not isinstance(request, dict) or request.get('SECoP') != 'discover':\n                return")
mutant('C19', 'answers-any-secop-object', 'frappy/protocol/discovery.py',
       "            if not isinstance(request, dict) or request.get('SECoP') != 'discover':",
       "            if not isinstance(request, dict) or 'SECoP' not in request:")
mutant('C19', 'answers-first-port-only', 'frappy/protocol/discovery.py',
       "            for port in self.ports:\n                self.sock.sendto(self._getMessage(port), addr)",
       "            for port in self.ports[:1]:\n                self.sock.sendto(self._getMessage(port), addr)")
mutant('C19', 'ws-ports-announced', 'frappy/protocol/discovery.py',
       "                      for iface in ifaces if iface.startswith('tcp')]",
       "                      for iface in ifaces]")
mutant('C19', 'budget-counts-characters', 'frappy/protocol/discovery.py',
       "        }, ensure_ascii=False, separators=(',', ':')).encode('utf-8')",
       "        }, ensure_ascii=False, separators=(',', ':')).encode('utf-8') if port != 2**16-1 else json.dumps({'SECoP': 'node', 'port': port, 'equipment_id': self.equipment_id, 'firmware': self.firmware, 'description': self.description}, ensure_ascii=False, separators=(',', ':')).encode('utf-16')[::2]")
# ---------------------------------------------------------------- C20
mutant('C20', 'level-filter-strict', 'frappy/logging.py',
       "            if record.levelno >= lev:", "            if record.levelno > lev:")
mutant('C20', 'idn-keeps-log-levels', 'frappy/protocol/dispatcher.py',
       "        self.set_all_log_levels(conn, 'off')\n        self._active_connections.discard(conn)",
       "        self._active_connections.discard(conn)")
mutant('C20', 'subscriptions-per-handler-not-per-module', 'frappy/logging.py',
       "        subscriptions = self.subscriptions.setdefault(modname, {})",
       "        subscriptions = self.subscriptions.setdefault('all', {})\n        self.subscriptions[modname] = subscriptions")
mutant('C20', 'rotation-removes-newest', 'frappy/logging.py',
       "            for filepath in files[:-self.max_days]:", "            for filepath in files[-self.max_days:]:")
mutant('C20', 'rotation-off-by-one', 'frappy/logging.py',
       "            for filepath in files[:-self.max_days]:", "            for filepath in files[:-self.max_days + 1 or None]:")
mutant('C20', 'rotation-takes-foreign-files', 'frappy/logging.py',
       "                               if entry.name.startswith(prefix) and entry.name.endswith('.log')\n                               and entry.is_file(follow_symlinks=False))",
       "                               if entry.name != 'current' and entry.is_file(follow_symlinks=False))")
mutant('C20', 'dot-sets-only-first-module', 'frappy/protocol/dispatcher.py',
       "        for modobj in self.secnode.modules.values():\n            modobj.setRemoteLogging(conn, level, self.send_log_msg)",
       "        for modobj in list(self.secnode.modules.values())[:1]:\n            modobj.setRemoteLogging(conn, level, self.send_log_msg)")
mutant('C20', 'numeric-levels-refused', 'frappy/logging.py',
       "        if level in LEVEL_NAMES:\n            return level", "        if False:\n            return level")
mutant('C20', 'log-label-is-level-number', 'frappy/logging.py',
       "                    conn, modname, LEVEL_NAMES[record.levelno],", "                    conn, modname, str(record.levelno),")
# ---------------------------------------------------------------- C14
mutant('C14', 'cleanup-can-be-interrupted', 'frappy/lib/statemachine.py',
       "                    if self.next_task and not self.cleanup_reason:",
       "                    if self.next_task:")
mutant('C14', 'cleanup-not-cleared', 'frappy/lib/statemachine.py',
       "        with self._lock:\n            cleanup, self.cleanup = self.cleanup, None\n        ret = None",
       "        cleanup = self.cleanup\n        ret = None")
mutant('C14', 'init-not-reset', 'frappy/lib/statemachine.py',
       "                            ret = self.statefunc(self)\n                            self.init = False",
       "                            ret = self.statefunc(self)")
mutant('C14', 'init-not-set-on-transition', 'frappy/lib/statemachine.py',
       "        self.init = True\n        self.statefunc = statefunc", "        self.statefunc = statefunc")
mutant('C14', 'no-loop-limit', 'frappy/lib/statemachine.py',
       "                for _ in range(self.maxloops):", "                for _ in range(10 ** 9):")
mutant('C14', 'attributes-not-applied', 'frappy/lib/statemachine.py',
       "                    self._new_state(action.newstate)\n                    self._update_attributes(action.kwds)",
       "                    self._new_state(action.newstate)")
mutant('C14', 'stop-ignored-when-cleanup-ran', 'frappy/lib/statemachine.py',
       "                self.cleanup_reason = None\n                if isinstance(action, Start):",
       "                if isinstance(action, Start):")
mutant('C14', 'exception-escapes', 'frappy/lib/statemachine.py',
       "                        except Exception as e:\n                            ret = self._cleanup(e)",
       "                        except KeyError as e:\n                            ret = self._cleanup(e)")
mutant('C14', 'second-start-dropped', 'frappy/lib/statemachine.py',
       "        with self._lock:\n            self.next_task = Start(statefunc, kwds)",
       "        with self._lock:\n            self.next_task = self.next_task or Start(statefunc, kwds)")
mutant('C14', 'cleanup-kept-on-restart', 'frappy/lib/statemachine.py',
       "        kwds.setdefault('cleanup', None)  # cleanup must be given on each restart", "        pass")
mutant('C14', 'finish-keeps-state', 'frappy/lib/statemachine.py',
       "                    self.log.debug('finish in state %r', self.statefunc.__name__)\n                self._new_state(None)",
       "                    self.log.debug('finish in state %r', self.statefunc.__name__)\n                if self.next_task:\n                    self._new_state(None)")
mutant('C14', 'module-status-idle-on-start', 'frappy/states.py',
       "            sm.status = self.get_status(statefunc, BUSY)\n            if sm.statefunc:",
       "            sm.status = self.get_status(statefunc, IDLE)\n            if sm.statefunc:")
mutant('C14', 'module-stopped-status-lost', 'frappy/states.py',
       "            sm.idle_status = stopped_status\n            sm.stop()",
       "            sm.stop()")
mutant('C14', 'module-error-status-idle', 'frappy/states.py',
       "        self.final_status(ERROR, repr(sm.cleanup_reason))", "        self.final_status(BUSY, repr(sm.cleanup_reason))")
# ---------------------------------------------------------------- C15
mutant('C15', 'shutdown-order-reversed', 'frappy/secnode.py',
       "                return l[::-1] + list(visited) + list(unmarked)\n        return l[::-1]",
       "                return l[::-1] + list(visited) + list(unmarked)\n        return l")
# (the mutant 'shutdown-ignores-configured-attachments' - shutdown order from the attachments used so far only - is
# equivalent since fix 4cd9344: check_attachments resolves every attachment before the start)
mutant('C15', 'shutdown-before-stopping-pollers', 'frappy/secnode.py',
       "        for mod in self.modules.values():\n            mod.stopPollThread()\n            # do not yet join here, as we want to wait in parallel",
       "        for name in self._getSortedModules():\n            self.modules[name].shutdownModule()\n        for mod in self.modules.values():\n            mod.stopPollThread()\n            # do not yet join here, as we want to wait in parallel")
mutant('C15', 'started-callback-before-first-polls', 'frappy/modulebase.py',
       "        while True:\n            try:\n                for mobj in modules:\n                    # TODO when needed: here we might add a call to a method :meth:`beforeWriteInit`",
       "        if started_callback:\n            started_callback()\n            started_callback = None\n        while True:\n            try:\n                for mobj in modules:\n                    # TODO when needed: here we might add a call to a method :meth:`beforeWriteInit`")
mutant('C15', 'init-writes-after-first-reads', 'frappy/modulebase.py',
       "                for mobj in modules:\n                    # TODO when needed: here we might add a call to a method :meth:`beforeWriteInit`\n                    mobj.writeInitParams()\n                    mobj.initialReads()\n                # call all read functions a first time\n                for m in polled_modules:\n                    for mobj, rfunc, _ in m.pollInfo.polled_parameters:\n                        mobj.callPollFunc(rfunc, raise_com_failed=True)",
       "                for m in polled_modules:\n                    for mobj, rfunc, _ in m.pollInfo.polled_parameters:\n                        mobj.callPollFunc(rfunc, raise_com_failed=True)\n                for mobj in modules:\n                    mobj.writeInitParams()\n                    mobj.initialReads()")
mutant('C15', 'no-cycle-check', 'frappy/server.py',
       "        self.secnode.check_attachments()\n", "")
mutant('C15', 'init-errors-swallowed', 'frappy/secnode.py',
       "            self.errors.append(f'error initializing {modulename}: {e!r}')\n        finally:",
       "            pass\n        finally:")
mutant('C15', 'wrong-type-accepted', 'frappy/modules.py',
       "            if not isinstance(modobj, self.basecls):", "            if False:")
mutant('C15', 'shutdown-twice', 'frappy/secnode.py',
       "        for name in self._getSortedModules():\n            self.modules[name].shutdownModule()\n\n    def _attached_names",
       "        for name in self._getSortedModules():\n            self.modules[name].shutdownModule()\n        for mod in list(self.modules.values())[:1]:\n            mod.shutdownModule()\n\n    def _attached_names")
# ---------------------------------------------------------------- C10
# (removed: 'configured-value-written-twice' - writeDict.get instead of pop is behaviour-preserving, writeInitParams runs once
#  per module object; 'unknown-param-property-ignored' - the 'except KeyError' it empties is dead code for parameters,
#  an unknown property raises ProgrammingError)
mutant('C10', 'configured-value-not-registered', 'frappy/modulebase.py',
       "            if hasattr(self, 'write_' + pname):\n                self.writeDict[pname] = pobj.value\n            if pobj.default is None:",
       "            if pobj.default is None:")
mutant('C10', 'unknown-names-ignored', 'frappy/modulebase.py',
       "        if cfgdict:\n            self.errors.append(", "        if cfgdict and False:\n            self.errors.append(")
mutant('C10', 'bad-values-swallowed', 'frappy/modulebase.py',
       "            except BadValueError as e:\n                self.errors.append(f'{name}.{propname}: {str(e)}')",
       "            except BadValueError as e:\n                pass")
mutant('C10', 'only-first-failing-module-reported', 'frappy/secnode.py',
       "            except ConfigError as e:\n                self.errors.append(f'error creating module {modulename}:')",
       "            except ConfigError as e:\n                if self.errors:\n                    return None\n                self.errors.append(f'error creating module {modulename}:')")
mutant('C10', 'start-before-error-check', 'frappy/server.py',
       "        if not self._testonly and not errors:", "        if not self._testonly:")
mutant('C10', 'needscfg-not-enforced', 'frappy/modulebase.py',
       "            if pobj.needscfg:\n                self.errors.append(", "            if pobj.needscfg and False:\n                self.errors.append(")
mutant('C10', 'merged-modules-dropped', 'frappy/config.py',
       "            if name not in self.module_names:\n                self.module_names.add(name)\n                self[name] = mod",
       "            if name not in self.module_names:\n                self.module_names.add(name)")
mutant('C10', 'param-min-override-ignored', 'frappy/params.py',
       "                try:\n                    self.datatype.setProperty(key, value)\n                except KeyError:",
       "                try:\n                    if key != 'min':\n                        self.datatype.setProperty(key, value)\n                except KeyError:")
mutant('C10', 'mandatory-not-checked', 'frappy/modulebase.py',
       "            try:\n                self.checkProperties()\n            except ConfigError as e:\n                self.errors.append(str(e))",
       "            pass")
# ---------------------------------------------------------------- C18
mutant('C18', 'member-callbacks-not-wired', 'frappy/extparams.py',
       "                modobj.addCallback(param.name, cb)\n\n\nclass FloatEnumParam", "                pass\n\n\nclass FloatEnumParam")
mutant('C18', 'struct-callback-not-wired', 'frappy/extparams.py',
       "            modobj.addCallback(self.name, struct_cb)", "            pass")
mutant('C18', 'float-enum-first-match', 'frappy/extparams.py',
       "                    min(vdict, key=lambda i: abs(vdict[i] - value)))",
       "                    next((i for i in sorted(vdict) if vdict[i] >= value), max(vdict)))")
mutant('C18', 'float-enum-no-trigger', 'frappy/extparams.py',
       "            modobj.addCallback(self.idx_name, self.trigger_setter, modobj)", "            pass")
mutant('C18', 'others-not-deactivated', 'frappy/mixins.py',
       "                if name != self.name:\n                    deactivate_control(self.name)",
       "                if name != self.name:\n                    pass")
mutant('C18', 'controlled-by-not-set', 'frappy/mixins.py',
       "            out.controlled_by = self.name\n        self.set_control_active(True)",
       "        self.set_control_active(True)")
mutant('C18', 'self-control-keeps-controllers', 'frappy/mixins.py',
       "            for deactivate_control in self.inputCallbacks.values():\n                deactivate_control(self.name)\n            self.controlled_by = 0  # self",
       "            self.controlled_by = 0  # self")
mutant('C18', 'limits-plain-tuple', 'frappy/params.py',
       "            self.datatype = LimitsType(datatype)", "            self.datatype = TupleOf(datatype, datatype)")
mutant('C18', 'limits-check-only-max', 'frappy/modulebase.py',
       "            if not min_ <= value <= max_:\n                raise RangeError(f'{pname} outside {pname}_limits')",
       "            if not value <= max_:\n                raise RangeError(f'{pname} outside {pname}_limits')")
mutant('C18', 'member-write-drops-others', 'frappy/extparams.py',
       "                            valuedict = dict(getattr(self, name))\n                            valuedict[membername] = value",
       "                            valuedict = {m: 0 for m in getattr(self, name)}\n                            valuedict[membername] = value")
# ---------------------------------------------------------------- C06
mutant('C06', 'minlen-not-exported', 'frappy/datatypes.py',
       "        return {'type': 'array', 'minlen': self.minlen, 'maxlen': self.maxlen,",
       "        return {'type': 'array', 'minlen': 0, 'maxlen': self.maxlen,")
mutant('C06', 'optional-not-exported', 'frappy/datatypes.py',
       "        if set(self.optional) != set(self.members):\n            res['optional'] = self.optional\n        return res",
       "        return res")
mutant('C06', 'unexported-still-routed', 'frappy/modulebase.py',
       "        if accessible.export:\n            self.accessiblename2attr[accessible.export] = name",
       "        self.accessiblename2attr[accessible.export or ('_' + name)] = name")
mutant('C06', 'constant-exported-raw', 'frappy/params.py',
       "            result['constant'] = self.datatype.export_value(self.constant)",
       "            result['constant'] = self.constant if isinstance(self.constant, (int, float, str, bool, list, dict)) else repr(self.constant)")
mutant('C06', 'description-changes-with-value', 'frappy/secnode.py',
       "            mod_desc.update(module.exportProperties())",
       "            mod_desc.update(module.exportProperties())\n            mod_desc['_calls'] = self.traceback_counter = self.traceback_counter + 1")
mutant('C06', 'scaled-min-exported-unscaled', 'frappy/datatypes.py',
       "        return self.get_info(type='scaled',\n                             min=int(round(self.min / self.scale)),",
       "        return self.get_info(type='scaled',\n                             min=int(round(self.min)),")
mutant('C06', 'interface-class-all-bases', 'frappy/modulebase.py',
       "            b.__name__ for b in mycls.__mro__ if b.__name__ in SECoP_BASE_CLASSES][:1]",
       "            b.__name__ for b in mycls.__mro__ if b.__name__ in SECoP_BASE_CLASSES]")
mutant('C06', 'enum-members-by-name-only', 'frappy/datatypes.py',
       "        return {'type': 'enum', 'members': dict((m.name, m.value) for m in self._enum.members)}",
       "        return {'type': 'enum', 'members': dict((m.name, i) for i, m in enumerate(self._enum.members))}")


def seeded():
    """the changes written by sub-agents (seeded/<name>/patch.diff): (property, name, patch file)"""
    import glob
    import json
    res = []
    for mf in sorted(glob.glob(os.path.join(VERIF, 'seeded', '*', 'meta.json'))):
        meta = json.load(open(mf, encoding='utf-8'))
        if meta.get('superseded'):
            continue     # no longer a breaking change on the current tree (a fix made it harmless)
        if meta.get('not_caught'):
            continue     # a recorded miss (the reason is in meta.json and in DESIGN.md)
        # (a change may break a clause which belongs to the check of another property: 'checked_by')
        res.append((meta.get('checked_by', meta['property']), 'seeded/' + meta['name'],
                    os.path.join(os.path.dirname(mf), 'patch.diff')))
    return res


def run_mutant(prop, name, file, old, new, runs, extra):
    d = tempfile.mkdtemp(prefix='frappy-mut-', dir='/dev/shm')
    try:
        for sub in ('frappy', 'frappy_demo', 'frappy_mlz', 'frappy_psi', 'frappy_ess', 'cfg'):
            if os.path.isdir(os.path.join('/repo', sub)):
                shutil.copytree(os.path.join('/repo', sub), os.path.join(d, sub),
                                ignore=shutil.ignore_patterns('__pycache__'))
        if old is None:     # a patch file
            cp = subprocess.run(['patch', '-p1', '-s', '-d', d, '-i', file], capture_output=True, text=True, check=False)
            if cp.returncode:
                return 'PATCH-FAILED', cp.stdout[-200:]
        else:
            path = os.path.join(d, file)
            src = open(path, encoding='utf-8').read()
            if src.count(old) != 1:
                return 'ANCHOR-MISSING' if old not in src else 'ANCHOR-AMBIGUOUS', ''
            open(path, 'w', encoding='utf-8').write(src.replace(old, new))
        env = dict(os.environ, FRAPPY_VERIF_REPO=d)
        # never touch the committed evidence / replays: run in a scratch copy of /verif
        vd = os.path.join(d, 'verif')
        shutil.copytree(VERIF, vd, ignore=shutil.ignore_patterns('__pycache__', '.git', 'replays', 'evidence', 'seeded'))
        cmd = [sys.executable, os.path.join(vd, 'run_check.py'), prop, '--no-minimise', '--max-report', '3'] + extra
        if runs:
            cmd += ['--runs', str(runs)]
        cp = subprocess.run(cmd, env=env, capture_output=True, text=True, check=False, cwd=vd)
        sigs = [l.strip() for l in cp.stdout.splitlines() if l.startswith('  C') or 'HARNESS' in l]
        verdict = {0: 'MISSED', 1: 'caught', 2: 'HARNESS-ERROR'}.get(cp.returncode, f'rc={cp.returncode}')
        return verdict, '; '.join(s[:110] for s in sigs[:3])
    finally:
        shutil.rmtree(d, ignore_errors=True)


def main():
    args = [a for a in sys.argv[1:] if not a.startswith('--')]
    runs = None
    extra = []
    for a in sys.argv[1:]:
        if a.startswith('--runs='):
            runs = int(a.split('=')[1])
        if a.startswith('--tier='):
            extra = ['--tier', a.split('=')[1]]
    wanted = {a.upper() for a in args if a[0] in 'cC' and a[1:].isdigit()}
    names = {a for a in args if a.upper() not in wanted}
    missed = 0
    for prop, name, file, old, new in M + [(p, n, f, None, None) for p, n, f in seeded()]:
        if wanted and prop not in wanted:
            continue
        if names and name not in names:
            continue
        if '--list' in sys.argv:
            print(prop, name, file)
            continue
        verdict, info = run_mutant(prop, name, file, old, new, runs, extra)
        print(f'{prop} {name:42s} {verdict:14s} {info}', flush=True)
        if verdict != 'caught':
            missed += 1
    return 1 if missed else 0


if __name__ == '__main__':
    sys.exit(main())
