#!/venv/bin/python
"""determinism self-test: the same seeds must give identical run digests
 (a) at different worker counts / batch positions, each in a fresh interpreter
 (b) twice in one process
usage: determinism.py <ID> [nruns]"""
import json
import os
import subprocess
import sys
import tempfile

VERIF = os.path.dirname(os.path.dirname(os.path.abspath(__file__)))


def batch(pid, n, workers, path):
    cp = subprocess.run([sys.executable, os.path.join(VERIF, 'run_check.py'), pid, '--runs', str(n),
                         '--seconds', '600', '--workers', str(workers), '--no-minimise', '--max-report', '0',
                         '--dump-digests', path], capture_output=True, text=True, check=False)
    return json.load(open(path, encoding='utf-8')), cp


def main():
    pid = sys.argv[1].upper()
    n = int(sys.argv[2]) if len(sys.argv) > 2 else 400
    with tempfile.TemporaryDirectory(dir='/dev/shm') as d:
        a, _ = batch(pid, n, 16, os.path.join(d, 'a.json'))
        b, _ = batch(pid, n, 5, os.path.join(d, 'b.json'))
    diff = [i for i in a if a[i] != b.get(i)]
    print(f'{pid}: {len(a)} runs at 16 workers vs {len(b)} at 5 workers: {len(diff)} differing digests {diff[:10]}')
    # in-process repetition
    code = (
        "import sys, random; sys.path.insert(0, %r)\n"
        "from sim import runner, harness\n"
        "chk = runner.load_check(%r)\n"
        "harness.execute(chk, chk.warmup_case(), seed=1)\n"
        "bad = 0\n"
        "for i in range(%d):\n"
        "    seed = runner.seed_for(99, i)\n"
        "    case = chk.gen_case(random.Random(seed), 'quick')\n"
        "    r1 = harness.execute(chk, case, seed=seed)\n"
        "    r2 = harness.execute(chk, case, seed=seed)\n"
        "    r3 = harness.execute(chk, case, replay=r1['tape'])\n"
        "    if not (r1['digest'] == r2['digest'] == r3['digest']): bad += 1; print('nondeterministic', i, seed)\n"
        "print('in-process twice + tape replay:', %d, 'seeds,', bad, 'mismatches')\n"
        "sys.exit(1 if bad else 0)\n" % (VERIF, pid, min(n, 150), min(n, 150)))
    env = dict(os.environ, PYTHONHASHSEED='0', TZ='UTC', PYTHONDONTWRITEBYTECODE='1')
    cp = subprocess.run([sys.executable, '-c', code], env=env, capture_output=True, text=True, check=False)
    print(cp.stdout[-2000:], cp.stderr[-2000:])
    return 1 if diff or cp.returncode else 0


if __name__ == '__main__':
    sys.exit(main())
