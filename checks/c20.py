"""C20 -- logging: exact per-connection routing, rotation keeps the newest files

Mode 'routing': a real node; 1..3 wire connections send `logging <module|.>
<level>` (valid and invalid level names), *IDN? and disconnect while modules
emit records of all levels from driver tasks, poll threads and request
handlers; every record carries a unique token.
Mode 'rotation': the real LogfileHandler (mlzlog + frappy.logging) writes into
a scratch directory pre-populated with dated and foreign files; the virtual
clock jumps across 1..k midnights between records; os.remove failures are
injected.
"""
import logging as pylogging
import os
import shutil
import threading
import time
import re
from pathlib import Path

from sim import env, fs as simfs, genmod, kernel, nodeworld
from sim.harness import Check, Violation

import frappy.logging as flogging
from frappy.logging import LogfileHandler

LEVELS = {'debug': 10, 'comlog': 15, 'info': 20, 'warning': 30, 'error': 40, 'off': 99}
NAMES = {v: k for k, v in LEVELS.items()}
DAY = 86400
OWN = re.compile(r"^node-\d{4}-\d{2}-\d{2}\.log$")     # files of the handler (anything else in the directory is foreign)


class C20(Check):
    ID = 'C20'
    TRACE_FILES = ('logging.py', 'protocol/dispatcher.py')
    TIERS = {'quick': {'runs': 20000, 'wall': 70}, 'thorough': {'runs': 400000, 'wall': 800}}
    RULE = ('[routing: activate / deactivate (bare or per module) among the requests; rotation: symbolic links named like own files] ' 'case = (routing) 2 modules + 1..3 connections with generated {logging <module|.> <level>, *IDN?, ping, close} '
            'sequences incl. invalid levels/modules + emitter tasks logging records of all levels with unique tokens, '
            'also from poll threads; or (rotation) log directory pre-populated with dated, foreign and sub-directory '
            'entries, retention 0..5, records separated by clock jumps over 0..4 midnights, injected os.remove '
            'failures; distinct = different (case digest, schedule digest); non-trivial = >= 1 record emitted while '
            '>= 1 connection had logging enabled, or >= 1 rollover with retention > 0')
    REAL = ['frappy.logging.RemoteLogHandler / LogfileHandler.doRollover / check_level', 'mlzlog.LogfileHandler',
            'frappy.modulebase.Module.setRemoteLogging', 'frappy.protocol.dispatcher (handle_logging, reset_connection, '
            'remove_connection, send_log_msg)', 'TCPRequestHandler']
    STUB = ['TCP (sim.net)', 'clock (virtual, jumps)', 'os.scandir/os.remove of frappy.logging (sim.fs over a real '
            'scratch directory)', 'hardware']
    ASSUMPTIONS = ['a record emitted between the sending of a logging/IDN/close request and its reply may or may not be '
                   'delivered; all others are judged exactly',
                   'rotation: files of the handler are <rootname>-YYYY-MM-DD.log; entries with other names are foreign '
                   'and must survive']
    PROBES = ('c20.routing-mode', 'c20.event-subscription-changed', 'c20.rotation-mode', 'c20.record-delivered', 'c20.record-filtered', 'c20.idn-reset',
              'c20.invalid-level', 'c20.rollover', 'fs.error', 'clock.jump', 'c20.foreign-symlink')

    def gen_case(self, rng, tier):
        mode = rng.choice(['routing', 'routing', 'rotation'])
        shape = {'p_switch': rng.choice([0.1, 0.3, 0.6]), 'line_gaps': rng.choice([0, 0, 10, 14]), 'mode': mode,
                 'seg_bias': rng.choice([1.0, 0.6]), 'lat_bias': rng.choice([1.0, 0.7])}
        ops = []
        if mode == 'routing':
            nconn = rng.choice([1, 2, 3])
            shape['nconn'] = nconn
            shape['poll_logs'] = rng.random() < 0.4
            # a module which is not exported (an internal helper): not in the description, but it logs like the others
            shape['hidden'] = rng.choice([None, None, 'm0', 'm1'])
            for c in range(nconn):
                for _ in range(rng.randrange(1, 7)):
                    kind = rng.choice(['logging', 'logging', 'logging', 'logging', 'idn', 'ping', 'close',
                                       'activate', 'deactivate'])
                    op = {'c': c, 'kind': kind, 'dt': rng.choice([0, 0, 0.01, 0.2, 1.0])}
                    if kind in ('activate', 'deactivate'):
                        # subscriptions to updates are another matter: they leave the log levels alone
                        op['spec'] = rng.choice([None, None, 'm0'])
                    if kind == 'logging':
                        op['mod'] = rng.choice(['m0', 'm1', '.', '.', None, 'nomod'])
                        op['level'] = rng.choice(['debug', 'comlog', 'info', 'warning', 'error', 'off', 'off',
                                                  'INFO', 'Warning', 'trace', '', 20, 99, 25, None])
                    ops.append(op)
                    if kind == 'close':
                        break
            emits = []
            for e in range(rng.choice([1, 2, 3])):
                seq = []
                for _ in range(rng.randrange(2, 14)):
                    seq.append({'mod': rng.choice(['m0', 'm1']), 'level': rng.choice([10, 15, 20, 30, 40]),
                                'dt': rng.choice([0, 0, 0.01, 0.1, 0.5])})
                emits.append(seq)
            shape['emits'] = emits
        else:
            shape['max_days'] = rng.choice([0, 1, 2, 3, 5])
            shape['existing_days'] = sorted(rng.sample(range(1, 30), rng.randrange(0, 8)))   # days before the epoch
            # (names ending in @: symbolic links - an operator's 'latest' link, a link left by a log shipping tool -
            # whose names look like files of the handler)
            shape['foreign'] = rng.sample(['notes.txt', 'zzz.log', 'aaa.log', 'frappy2-2023-01-01.log', 'subdir/',
                                           'node-2023-11-01.log.bak', 'node-latest.log@', 'node-0-archive.log@'],
                                          rng.randrange(0, 4))
            for _ in range(rng.randrange(1, 9)):
                ops.append({'jump_days': rng.choice([0, 0, 1, 1, 1, 2, 4]), 'jump_secs': rng.choice([0, 10, 3600, 86399]),
                            'nrec': rng.randrange(1, 4),
                            'remove_fails': rng.random() < 0.12})
        return {'shape': shape, 'ops': ops}

    def shrink_candidates(self, case):
        sh = case['shape']
        if sh['line_gaps']:
            yield dict(case, shape=dict(sh, line_gaps=0))
        if sh['seg_bias'] < 1 or sh['lat_bias'] < 1:
            yield dict(case, shape=dict(sh, seg_bias=1.0, lat_bias=1.0))
        if sh['mode'] == 'routing':
            if len(sh['emits']) > 1:
                yield dict(case, shape=dict(sh, emits=sh['emits'][:1]))
            for i, seq in enumerate(sh['emits']):
                if len(seq) > 1:
                    em = list(sh['emits'])
                    em[i] = seq[:len(seq) // 2]
                    yield dict(case, shape=dict(sh, emits=em))
            if sh['poll_logs']:
                yield dict(case, shape=dict(sh, poll_logs=False))
        else:
            if sh['foreign']:
                yield dict(case, shape=dict(sh, foreign=[]))
            if sh['existing_days']:
                yield dict(case, shape=dict(sh, existing_days=sh['existing_days'][1:]))

    # ------------------------------------------------------------------ run
    def main(self, sim, case, ctx):
        if case['shape']['mode'] == 'routing':
            sim.count('c20.routing-mode')
            self.main_routing(sim, case, ctx)
        else:
            sim.count('c20.rotation-mode')
            self.main_rotation(sim, case, ctx)

    def main_routing(self, sim, case, ctx):
        shape = case['shape']
        world = ctx['world'] = env.World(sim, shape['seg_bias'], shape['lat_bias'])
        specs = []
        for i in range(2):
            specs.append({'name': f'm{i}', 'base': 'Readable', 'export': shape.get('hidden') != f'm{i}', 'cmds': [],
                          'pollinterval': 0.3,
                          'enablePoll': shape['poll_logs'],
                          'params': [{'name': 'value', 'di': {'type': 'double'}, 'read': True, 'readonly': True,
                                      'default': None, 'init': 0.0, 'export': True}]})
        drv = genmod.Driver(sim)
        node = nodeworld.Node(world, 'n', specs, drv)
        ctx['cleanup'] = [node.forget]
        emitted = ctx['emitted'] = []
        tok = [0]

        def emit(mname, level, who):
            tok[0] += 1
            t = tok[0]
            rec = {'tok': t, 'mod': mname, 'level': level, 'who': who, 'seq0': sim.next_seq()}
            emitted.append(rec)
            try:
                node.module(mname).log.log(level, 'tok%d from %s', t, who)
            except Exception as e:   # noqa
                rec['raised'] = repr(e)
            rec['seq1'] = sim.next_seq()
        if shape['poll_logs']:
            orig_read = drv.read

            def read(modobj, pname):
                emit(modobj.name, 20 if tok[0] % 2 else 10, 'poller')
                return orig_read(modobj, pname)
            drv.read = read
        conns = ctx['conns'] = [None] * shape['nconn']

        def conn_task(cidx):
            cl = nodeworld.RawClient(world)
            rec = {'client': cl, 'events': []}
            conns[cidx] = rec
            for op in [o for o in case['ops'] if o['c'] == cidx]:
                if op['dt']:
                    time.sleep(op['dt'])
                kind = op['kind']
                ev = {'kind': kind, 'op': op, 'send_seq': sim.next_seq(), 'nlines': len(cl.lines)}
                rec['events'].append(ev)
                if kind == 'close':
                    cl.close()
                    time.sleep(0.5)
                    ev['reply_seq'] = sim.next_seq()
                    return
                if kind == 'logging':
                    import json
                    spec = '' if op['mod'] is None else op['mod']
                    text = f'logging {spec} {json.dumps(op["level"])}' if op['level'] is not None else f'logging {spec}'
                elif kind == 'idn':
                    text = '*IDN?'
                elif kind in ('activate', 'deactivate'):
                    text = kind + (f' {op["spec"]}' if op.get('spec') else '')
                    sim.count('c20.event-subscription-changed')
                else:
                    text = 'ping p'
                r = cl.request(text, timeout=60)
                ev['reply_seq'] = sim.next_seq()
                if r is None:
                    ev['reply'] = None
                    return
                ev['reply'] = r[2].raw.decode('latin-1')
                ev['reply_idx'] = r[2].idx
            rec['finished'] = True

        def emitter(eidx, seq):
            for st in seq:
                if st['dt']:
                    time.sleep(st['dt'])
                emit(st['mod'], st['level'], f'emitter{eidx}')
        ths = [threading.Thread(target=conn_task, args=(c,), name=f'client{c}') for c in range(shape['nconn'])]
        ths += [threading.Thread(target=emitter, args=(i, seq), name=f'emitter{i}') for i, seq in enumerate(shape['emits'])]
        for t in ths:
            t.start()
        for t in ths:
            t.join()
        node.shutdown()
        time.sleep(1.0)
        ctx['final_seq'] = sim.next_seq()
        for rec in conns:
            if rec and not rec['client'].closed:
                rec['client'].drain(quiet=1.5, maxtime=10)

    def main_rotation(self, sim, case, ctx):
        shape = case['shape']
        ctx['world'] = env.World(sim)
        root = Path(env.SCRATCH) / f'c20-{os.getpid()}'
        shutil.rmtree(root, ignore_errors=True)
        logdir = root / 'node'
        logdir.mkdir(parents=True)
        fs = simfs.SimFS(sim, root)
        old_os = flogging.os
        flogging.os = fs.os

        def undo():
            flogging.os = old_os
            shutil.rmtree(root, ignore_errors=True)
        ctx['cleanup'] = [undo]
        t0 = time.time()

        def fname(ts):
            return 'node-' + time.strftime('%Y-%m-%d', time.gmtime(ts)) + '.log'
        for d in shape['existing_days']:
            (logdir / fname(t0 - d * DAY)).write_text(f'old {d}\n')
        for f in shape['foreign']:
            if f.endswith('/'):
                (logdir / f.rstrip('/')).mkdir()
            elif f.endswith('@'):
                sim.count('c20.foreign-symlink')
                target = fname(t0 - shape['existing_days'][0] * DAY) if shape['existing_days'] else 'linked.txt'
                if not (logdir / target).exists():
                    (logdir / target).write_text('linked\n')
                os.symlink(target, logdir / f[:-1])
            else:
                (logdir / f).write_text('foreign\n')
        handler = LogfileHandler(str(root), 'node', max_days=shape['max_days'])
        handler.setLevel(pylogging.DEBUG)
        log = pylogging.Logger('rot')
        log.addHandler(handler)
        steps = ctx['steps'] = []
        errors = ctx['errors'] = []
        handler.handleError = lambda record: errors.append((sim.vnow(), repr(__import__('sys').exc_info()[1])))
        n = 0
        # a server logs at start-up: the file of the first day is open before the first midnight
        # (mlzlog's doRollover fails on a handler that never wrote anything - not frappy code)
        log.info('started')
        for op in case['ops']:
            jump = op['jump_days'] * DAY + op['jump_secs']
            if jump:
                sim.jump(jump)
                sim.count('clock.jump')
            before = sorted(os.listdir(logdir))
            fs.reset({'at': 1, 'kind': 'error', 'errno': 13} if op['remove_fails'] else None)
            day_before = handler.baseFilename
            for _ in range(op['nrec']):
                n += 1
                log.info('record %d', n)
            remove_failed = bool(fs.fired)
            fslog = list(fs.log)
            fs.reset(None)
            # mlzlog advances its rollover time by one day per rollover: after a jump over several
            # midnights the following records roll over again (same file name) - also a rotation
            rolled = handler.baseFilename != day_before or any(o[1] == 'scandir' for o in fslog)
            if rolled:
                sim.count('c20.rollover')
            steps.append({'before': before, 'after': sorted(os.listdir(logdir)), 'rolled': rolled,
                          'today': os.path.basename(handler.baseFilename), 'now': time.time(),
                          'remove_failed': remove_failed, 'fslog': fslog})
        handler.close()

    # ------------------------------------------------------------------ oracle
    def observation(self, sim, case, ctx):
        if case['shape']['mode'] == 'routing':
            return [[(s, ln.raw) for s, _t, ln in rec['client'].lines] for rec in ctx.get('conns', ()) if rec]
        return ctx.get('steps')

    def nontrivial(self, sim, case, ctx):
        if case['shape']['mode'] == 'rotation':
            return case['shape']['max_days'] > 0 and any(s['rolled'] for s in ctx.get('steps', ()))
        return sim.counters.get('c20.record-delivered', 0) >= 1

    def judge(self, sim, case, ctx):
        if case['shape']['mode'] == 'routing':
            return self.judge_routing(sim, case, ctx)
        return self.judge_rotation(sim, case, ctx)

    def judge_routing(self, sim, case, ctx):
        res = []
        cnt = sim.counters

        def bump(k):
            cnt[k] = cnt.get(k, 0) + 1
        emitted = ctx['emitted']
        for e in emitted:
            if 'raised' in e:
                res.append(Violation('C20.logging-call-raised', e['who'].rstrip('0123456789'),
                                     f'log call of {e["mod"]} ({e["who"]}) raised {e["raised"]}'))
                break
        by_tok = {e['tok']: e for e in emitted}
        for cidx, rec in enumerate(ctx['conns']):
            if rec is None:
                continue
            cl = rec['client']
            # timeline of subscription states: list of (send_seq, reply_seq, changes)
            timeline = []
            for ev in rec['events']:
                op = ev['op']
                changes = None
                if ev['kind'] == 'logging':
                    rep = ev.get('reply') or ''
                    lvl = op['level']
                    num = None
                    if isinstance(lvl, str) and lvl.lower() in LEVELS:
                        num = LEVELS[lvl.lower()]
                    elif isinstance(lvl, int) and not isinstance(lvl, bool) and lvl in NAMES:
                        num = lvl
                    mods = {'m0': ['m0'], 'm1': ['m1'], '.': ['m0', 'm1'], None: ['m0', 'm1']}.get(op['mod'])
                    valid = num is not None and mods is not None
                    if not valid:
                        bump('c20.invalid-level')
                    if valid and not rep.startswith('logging'):
                        res.append(Violation('C20.valid-request-refused', str(lvl),
                                             f'conn {cidx}: logging {op["mod"]} {lvl!r} answered {rep!r}'))
                    if not valid and rep and not rep.startswith('error_logging'):
                        res.append(Violation('C20.invalid-request-accepted', str(lvl)[:12],
                                             f'conn {cidx}: logging {op["mod"]} {lvl!r} answered {rep!r}'))
                    if valid and rep.startswith('logging'):
                        changes = {m: num for m in mods}
                elif ev['kind'] == 'idn':
                    changes = {'m0': 99, 'm1': 99}
                    bump('c20.idn-reset')
                elif ev['kind'] == 'close':
                    changes = {'m0': 99, 'm1': 99}
                if changes:
                    timeline.append((ev['send_seq'], ev.get('reply_seq', 1 << 60), changes))
            got = {}
            for (_s, _t, ln) in cl.lines:
                if ln.action == 'log':
                    if not ln.utf8 or not ln.json_ok or ':' not in (ln.spec or '') or not isinstance(ln.data, str):
                        res.append(Violation('C20.malformed-log-message', 'line', f'conn {cidx}: {ln!r}'))
                        continue
                    mod, lname = ln.spec.split(':', 1)
                    try:
                        t = int(ln.data.split()[0][3:])
                    except ValueError:
                        continue       # a frappy-internal message (e.g. 'o.k.')
                    got.setdefault(t, []).append((mod, lname, ln.idx))
            for e in emitted:
                # state of this connection for e['mod'] when the record was emitted
                state, certain = 99, True
                for (s0, s1, ch) in timeline:
                    if e['mod'] not in ch:
                        continue
                    if s1 < e['seq0']:
                        state = ch[e['mod']]
                        certain = True
                    elif s0 <= e['seq1']:
                        certain = False
                should = e['level'] >= state
                have = got.get(e['tok'], [])
                if len(have) > 1:
                    res.append(Violation('C20.record-delivered-twice', 'duplicate', f'conn {cidx}: token {e["tok"]} in lines '
                                                                                    f'{[h[2] for h in have]}'))
                if not certain:
                    continue
                if should and not have and not cl.closed:
                    res.append(Violation('C20.record-not-delivered', NAMES.get(e['level'], str(e['level'])),
                                         f'conn {cidx}: record tok{e["tok"]} of {e["mod"]} level {e["level"]} ({e["who"]}) '
                                         f'not delivered although the connection had level {state} for {e["mod"]}'))
                elif not should and have:
                    why = 'off' if state == 99 else 'below-level'
                    res.append(Violation('C20.record-delivered-wrongly', why,
                                         f'conn {cidx}: record tok{e["tok"]} of {e["mod"]} level {e["level"]} delivered '
                                         f'(line {have[0][2]}) although the connection had level {state} for {e["mod"]}'))
                elif should and have:
                    bump('c20.record-delivered')
                    mod, lname, _i = have[0]
                    if mod != e['mod'] or LEVELS.get(lname) != e['level']:
                        res.append(Violation('C20.wrong-label', lname, f'conn {cidx}: tok{e["tok"]} {e["mod"]}/{e["level"]} '
                                                                       f'arrived as log {mod}:{lname}'))
                else:
                    bump('c20.record-filtered')
            for t, have in got.items():
                if t not in by_tok:
                    res.append(Violation('C20.phantom-record', 'token', f'conn {cidx}: log message with unknown token {t}'))
        return res

    def judge_rotation(self, sim, case, ctx):
        res = []
        shape = case['shape']
        n = shape['max_days']
        for msg in ctx['errors'][:1]:
            # an injected os.remove failure legitimately ends up in handleError
            if not any(s['remove_failed'] for s in ctx['steps']) and 'subdir' not in str(shape['foreign']):
                res.append(Violation('C20.rollover-raised', 'emit', f'logging raised inside the handler: {msg}'))
        for k, s in enumerate(ctx['steps']):
            own_before = [f for f in s['before'] if OWN.match(f)]
            own_after = [f for f in s['after'] if OWN.match(f)]
            foreign_before = [f for f in s['before'] if f not in own_before and f != 'current']
            foreign_after = [f for f in s['after'] if f not in own_after and f != 'current']
            if s['today'] not in own_after:
                res.append(Violation('C20.current-file-missing', 'rollover' if s['rolled'] else 'write',
                                     f'step {k}: the file being written {s["today"]} does not exist; directory {s["after"]}'))
                break
            if set(foreign_before) - set(foreign_after):
                res.append(Violation('C20.foreign-file-removed', 'foreign',
                                     f'step {k}: {sorted(set(foreign_before) - set(foreign_after))} removed by the rotation'))
                break
            if not s['rolled']:
                if set(own_before) - set(own_after):
                    res.append(Violation('C20.removed-without-rollover', 'write', f'step {k}: {set(own_before) - set(own_after)}'))
                continue
            allfiles = sorted(set(own_before) | {s['today']})
            if n == 0:
                keep = set(allfiles)
            else:
                keep = set(allfiles[-n:])
            missing = keep - set(own_after)
            if missing:
                res.append(Violation('C20.newest-files-removed', f'retention',
                                     f'step {k}: rollover to {s["today"]} with retention {n}: {sorted(missing)} must be kept '
                                     f'(the file being written and the {n - 1} newest earlier ones) but are gone; '
                                     f'before {own_before} after {own_after}'))
                break
            extra = set(own_after) - keep
            if extra and n and not s['remove_failed']:
                res.append(Violation('C20.old-files-kept', 'retention',
                                     f'step {k}: retention {n}: {sorted(extra)} are older than the {n} newest and should '
                                     f'have been removed; after {own_after}'))
                break
        return res


CHECK = C20()
