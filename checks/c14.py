"""C14 -- state machine: bounded cycles, exactly-once cleanup, last start wins

The real frappy.lib.statemachine.StateMachine runs generated programs: state
functions over a small alphabet of behaviours (next state / Retry / Finish /
non-callable / raise / return itself), cleanup functions (return a chain /
None / non-callable / raise).  A cycling task calls cycle(); a commanding task
issues start(state, cleanup, attributes) and stop() between any two steps:
state and cleanup functions are harness code and yield to the scheduler, and
line events of statemachine.py add the hand-over races.

Oracle: trace invariants (no step-for-step model, to avoid encoding the
implementation).
"""
import threading
import time

from sim import env, kernel
from sim.harness import Check, Violation

from frappy.lib.statemachine import Finish, Retry, StateMachine, Stop
from frappy.core import BUSY, IDLE, Drivable, FloatRange, Parameter
from frappy.states import HasStates, status_code
from sim import nodeworld

NSTATES = 4


class C14(Check):
    ID = 'C14'
    TRACE_FILES = ('lib/statemachine.py', 'states.py')
    TIERS = {'quick': {'runs': 24000, 'wall': 80}, 'thorough': {'runs': 400000, 'wall': 800}}
    RULE = ('[30 % module world: HasStates Drivable in a real node over the wire; a quarter of those: start, stop, start, stop within a stop cleanup of 3..6 cycles; last call of a run may take 0.3 / 0.8 s] ' 'case = program (4 state behaviours scripts over {retry, next, self, finish, non-callable, raise}, cleanup '
            'behaviours {none, chain, non-callable, raise}, maxloops in {2,3,10}) + <= 12 commands {start(state, cleanup?, '
            'attributes), stop, wait} from a second task while the first task cycles; distinct = different (case digest, '
            'schedule digest); non-trivial = >= 1 start/stop arrived while the machine was active and >= 1 scheduling '
            'decision among >= 2 runnable tasks')
    REAL = ['frappy.lib.statemachine.StateMachine (cycle, start, stop, _cleanup, _new_state, _update_attributes)']
    STUB = ['state and cleanup functions (generated harness closures that yield to the scheduler)', 'clock']
    ASSUMPTIONS = ['transitions are observed through the documented transition hook',
                   'liveness (machine inactive after the last stop / last requested state entered with its attributes) is '
                   'judged after 4 + (length of the longest generated cleanup chain) further cycles; generated cleanup '
                   'chains retry a bounded number of times']
    PROBES = ('c14.module-world', 'c14.run-ends-with-start-waiting', 'c14.run-finishes-with-start-waiting', 'c14.stop-during-stop-cleanup', 'c14.interrupt-while-active', 'c14.cleanup-chain', 'c14.restart-during-cleanup', 'c14.stop-during-cleanup',
              'c14.loop-limit', 'c14.error-in-state', 'c14.error-in-cleanup', 'c14.two-commands-before-cycle')

    def gen_case(self, rng, tier):
        states = []
        for i in range(NSTATES):
            script = []
            for _ in range(rng.randrange(1, 5)):
                r = rng.random()
                if r < 0.35:
                    script.append(['retry'])
                elif r < 0.65:
                    script.append(['next', rng.randrange(NSTATES)])
                elif r < 0.72:
                    script.append(['self'])
                elif r < 0.84:
                    script.append(['finish'])
                elif r < 0.92:
                    script.append(['raise'])
                else:
                    script.append(['noncallable', rng.choice([None, 5, 'x'])])
            states.append(script)
        chains = []
        for i in range(3):
            # a cleanup chain: list of steps each retrying a bounded number of times
            chains.append([{'retries': rng.randrange(0, 3), 'then': rng.choice(['next', 'next', 'finish', 'raise', 'none'])}
                           for _ in range(rng.randrange(1, 4))])
        ops = []
        for _ in range(rng.randrange(1, 13)):
            r = rng.random()
            if r < 0.5:
                op = {'kind': 'start', 'state': rng.randrange(NSTATES),
                      'cleanup': rng.choice([None, 'none', 'chain0', 'chain1', 'chain2', 'raise', 'noncallable']),
                      'attrs': {rng.choice(['a', 'b', 'c']): rng.randrange(100) for _ in range(rng.randrange(0, 3))}}
            elif r < 0.75:
                op = {'kind': 'stop'}
            else:
                op = {'kind': 'wait', 'cycles': rng.randrange(1, 4)}
            op['gap'] = rng.choice([0, 0, 1, 2])
            ops.append(op)
        shape = {'p_switch': rng.choice([0.2, 0.5, 0.8]), 'line_gaps': rng.choice([0, 6, 9, 12]),
                 'states': states, 'chains': chains, 'maxloops': rng.choice([2, 3, 10]),
                 'initial': rng.choice([None, 0, 1]), 'mode': 'machine'}
        if rng.random() < 0.3:
            # module world: a HasStates Drivable in a real node, driven over the wire
            shape['mode'] = 'module'
            shape['line_gaps'] = rng.choice([0, 0, 10])
            shape['plan'] = {'a_retries': rng.randrange(0, 4), 'b_retries': rng.randrange(0, 4),
                             'a_fails': rng.random() < 0.15, 'stop_chain': rng.randrange(0, 3), 'a_decorated': rng.random() < 0.6,
                             'stop_decorated': rng.random() < 0.6, 'finish_time': rng.choice([0, 0, 0.3, 0.8]),
                             'pollinterval': rng.choice([0.2, 1.0])}
            ops = []
            for _ in range(rng.randrange(1, 7)):
                ops.append({'kind': rng.choice(['change', 'change', 'stop', 'read']),
                            'v': round(rng.random() * 100, 2), 'dt': rng.choice([0, 0.05, 0.3, 1.5, 4.0])})
            if rng.random() < 0.25:
                # focus: a new target and another stop arrive while the stop cleanup of the first run takes several
                # cycles: the most recent request is a stop
                shape['plan'].update(stop_chain=rng.choice([3, 4, 6]), a_fails=False)
                ops = [{'kind': 'change', 'v': 11.0, 'dt': 0}, {'kind': 'stop', 'v': 0, 'dt': rng.choice([0.05, 0.3, 1.5])},
                       {'kind': 'change', 'v': 22.0, 'dt': rng.choice([0, 0.05])},
                       {'kind': 'stop', 'v': 0, 'dt': rng.choice([0, 0.05])}] + ops[:rng.randrange(0, 2)]
        return {'shape': shape, 'ops': ops}

    def shrink_candidates(self, case):
        sh = case['shape']
        if sh.get('mode') == 'module':
            return
        if sh['line_gaps']:
            yield dict(case, shape=dict(sh, line_gaps=0))
        for i, sc in enumerate(sh['states']):
            if len(sc) > 1:
                st = list(sh['states'])
                st[i] = sc[:1]
                yield dict(case, shape=dict(sh, states=st))

    # ------------------------------------------------------------------ run
    def main(self, sim, case, ctx):
        if case['shape'].get('mode') == 'module':
            sim.count('c14.module-world')
            return self.main_module(sim, case, ctx)
        return self.main_machine(sim, case, ctx)

    def main_module(self, sim, case, ctx):
        shape = case['shape']
        plan = shape['plan']
        world = ctx['world'] = env.World(sim)
        ev = ctx['mevents'] = []

        def rec(*e):
            if not sim.finished:
                ev.append((sim.next_seq(), time.time()) + e)

        seen_active = []
        nruns = [0]

        class SpySM(StateMachine):
            @property
            def is_active(self):
                v = StateMachine.is_active.fget(self)
                seen_active.append((threading.current_thread().name, v))
                return v

        class SMod(HasStates, Drivable):
            value = Parameter('v', FloatRange(), default=0)

            def read_value(self):
                return self.value

            def write_target(self, value):
                rec('start-req', value, bool(self._state_machine.is_active or self._state_machine.next_task))
                self.start_machine(self.state_a, count=0, goal=value)
                return value

            def state_a(self, sm):
                if sm.init:
                    sm.count = 0
                    rec('run-begin')
                    nruns[0] += 1
                sim.yield_point()
                sm.count += 1
                if plan['a_fails'] and sm.count > plan['a_retries']:
                    rec('finishing', 'error')
                    raise ValueError('ramp failed')
                if sm.count <= plan['a_retries']:
                    return Retry
                return self.state_b

            if plan.get('a_decorated', True):
                # else: a start state without attached status: BUSY is the documented default
                state_a = status_code(BUSY, 'ramping')(state_a)

            @status_code(BUSY, 'stabilizing')
            def state_b(self, sm):
                if sm.init:
                    sm.count = 0
                sim.yield_point()
                sm.count += 1
                if sm.count <= plan['b_retries']:
                    return Retry
                self.value = sm.goal
                rec('finishing', 'reached')
                if plan.get('finish_time'):
                    # the last call takes its time (the hardware confirms slowly): requests arrive meanwhile
                    time.sleep(plan['finish_time'])
                return self.final_status(IDLE, 'reached')

            def on_stop(self, sm):
                rec('on-stop', type(getattr(sm, 'cleanup_reason', None)).__name__)
                if plan['stop_chain']:
                    sm.count = 0
                    return self.state_stopping
                return None

            def state_stopping(self, sm):
                sm.count += 1
                if sm.count < plan['stop_chain']:
                    return Retry
                return Finish

            if plan.get('stop_decorated', True):
                # else: a cleanup state without attached status (it does not change the status, as documented)
                state_stopping = status_code(BUSY, 'braking')(state_stopping)

            def state_transition(self, sm, newstate):
                nt = sm.next_task
                super().state_transition(sm, newstate)
                if newstate is None:
                    # the run ends; was a start waiting all the time while the status was worked out?
                    st = tuple(sm.status)
                    rec('to-idle', type(nt).__name__, sm.next_task is nt, (int(st[0]), st[1]),
                        type(sm.cleanup_reason).__name__)

            def stop_machine(self, *args, **kwds):
                sm = self._state_machine
                if not isinstance(sm, SpySM):
                    sm.__class__ = SpySM
                rec('stop-req', bool(StateMachine.is_active.fget(sm)), type(sm.cleanup_reason).__name__)
                me = threading.current_thread().name
                n0 = len(seen_active)
                super().stop_machine(*args, **kwds)
                # what stop_machine itself saw when it tested whether the machine is running
                mine = [v for (t, v) in seen_active[n0:] if t == me]
                rec('stop-done', mine[0] if mine else None, isinstance(sm.next_task, Stop))

            def doPoll(self):
                was = self._state_machine.is_active
                r0 = nruns[0]
                super().doPoll()
                # (a run may begin and end within one call)
                if (was or nruns[0] > r0) and not self._state_machine.is_active:
                    rec('inactive', tuple(self._state_machine.status))
        ctx['cleanup'] = [lambda: env.forget_classes(SMod)]
        srv = world.make_server('n', {'m': {'cls': SMod, 'description': 'state machine module',
                                             'pollinterval': {'value': plan['pollinterval']}}})
        srv._processCfg()
        world.serve(srv)
        cl = ctx['client'] = nodeworld.RawClient(world)
        cl.request('activate', timeout=60)
        reqs = ctx['reqs'] = []
        for op in case['ops']:
            if op['dt']:
                time.sleep(op['dt'])
            text = {'change': f'change m:target {op["v"]}', 'stop': 'do m:stop', 'read': 'read m:status'}[op['kind']]
            t0 = time.time()
            r = cl.request(text, timeout=60)
            reqs.append({'op': op, 't0': t0, 't1': time.time(), 'reply': None if r is None else r[2].raw.decode('latin-1')})
            if op['kind'] == 'change' and r is not None and r[2].action == 'changed':
                r2 = cl.request('read m:status', timeout=60)
                reqs.append({'op': {'kind': 'read-after-change'}, 't0': t0, 't1': time.time(),
                             'reply': None if r2 is None else r2[2].raw.decode('latin-1'),
                             'data': None if r2 is None else r2[2].data})
        # quiescence
        mod = srv.secnode.modules['m']
        time.sleep(3 * plan['pollinterval'] + 5 + (plan['a_retries'] + plan['b_retries'] + plan['stop_chain'] + 3) * 1.0)
        ctx['final_active'] = mod._state_machine.is_active
        ctx['final_status'] = list(mod.status)
        ctx['final_status'][0] = int(ctx['final_status'][0])
        cl.drain(quiet=2.0, maxtime=20)
        srv.secnode.shutdown_modules()

    def judge_module(self, sim, case, ctx):
        res = []
        cl = ctx['client']
        ev = ctx['mevents']
        updates = []
        for (_s, _t, ln) in cl.lines:
            if ln.action == 'update' and ln.spec == 'm:status' and ln.json_ok and isinstance(ln.data, list):
                updates.append((ln.data[1].get('t', 0), int(ln.data[0][0]), ln.data[0][1], ln.idx))
        starts = [e for e in ev if e[2] == 'start-req']
        inact = [e for e in ev if e[2] == 'inactive']
        if starts:
            sim.counters['c14.interrupt-while-active'] = sim.counters.get('c14.interrupt-while-active', 0) + 1
        # busy windows: from a start request until the machine went inactive the next time
        import json as _json
        changed_t = []
        for r in ctx['reqs']:
            if r['op']['kind'] == 'change' and (r['reply'] or '').startswith('changed '):
                try:
                    changed_t.append(_json.loads(r['reply'].split(' ', 2)[2])[1]['t'])
                except Exception:   # noqa
                    pass
        for st in starts:
            end = next((e for e in inact if e[0] > st[0]), None)
            fin = next((e for e in ev if e[2] == 'finishing' and e[0] > st[0]), None)
            # the final status is announced inside the cycle that ends the machine, just before the
            # harness can note 'inactive': 1 ms of virtual time is far more than that cycle takes
            # the run is started for the client when the change is acknowledged (timestamp of 'changed')
            t_a = next((t for t in changed_t if t >= st[1]), None)
            if t_a is None:
                continue
            nxt = next((e for e in starts if e[0] > st[0]), None)
            t_b = min(end[1] - 0.001 if end else float('inf'), fin[1] if fin else float('inf'))
            # judged only for clean runs: started on an idle machine, no other start/stop request until it ended
            # (restart and stop racing with the cycling thread have their own status texts and hand-over rules)
            if st[4] or (nxt is not None and nxt[1] < t_b + 0.01) or \
                    any(r['op']['kind'] == 'stop' and r['t0'] < t_b + 0.01 and r['t1'] > st[1] - 0.01 for r in ctx['reqs']):
                continue
            for (t, code, text, idx) in updates:
                if t_a < t < t_b - 1e-9 and not 300 <= code < 400:
                    res.append(Violation('C14.status-not-busy', f'{code}',
                                         f'status update [{code}, {text!r}] (t={t:.4f}, line {idx}) although the machine was '
                                         f'started at t={t_a:.4f} and finished at t={t_b if end else None}'))
                    return res
        for r in ctx['reqs']:
            if r['op']['kind'] == 'read-after-change' and r.get('data'):
                code = int(r['data'][0][0])
                t_reply = r['t1']
                busy_until = min(next((e[1] - 0.001 for e in inact if e[1] > r['t0']), float('inf')),
                                 next((e[1] for e in ev if e[2] == 'finishing' and e[1] > r['t0']), float('inf')))
                st = next((e for e in reversed(starts) if e[1] <= r['t1']), None)
                if st is None or st[4] or any(q['op']['kind'] == 'stop' and q['t1'] > st[1] - 0.01 and q['t0'] < r['t1'] + 0.01
                                              for q in ctx['reqs']):
                    continue     # not a clean run (see above)
                if t_reply < busy_until - 1e-6 and not 300 <= code < 400:
                    res.append(Violation('C14.status-not-busy', f'read|{code}',
                                         f'read m:status right after the changed reply gave {r["data"][0]} while the machine '
                                         f'was running (finished at {busy_until})'))
                    return res
        # a run whose stop cleanup has begun ends with that cleanup: its states are not resumed
        stopped_run = False
        for e in ev:
            if e[2] == 'run-begin':
                stopped_run = False     # (a start requested before the cleanup began starts its run after it)
            elif e[2] == 'on-stop' and len(e) > 3 and e[3] == 'Stop':
                stopped_run = True      # (the same hook runs when a restart interrupts a run)
            elif e[2] == 'finishing' and e[3] == 'reached' and stopped_run:
                res.append(Violation('C14.stop-ignored', 'resumed-after-cleanup-began',
                                     f'the stop cleanup of the run began, but later the run reached its goal: '
                                     f'{[x[2:4] for x in ev][-8:]}'))
                return res
        # busy from the start request on: a run which ends while a start is waiting hands over with a busy status
        for e in ev:
            if e[2] == 'to-idle' and e[3] == 'Start' and e[4]:
                sim.counters['c14.run-ends-with-start-waiting'] = sim.counters.get('c14.run-ends-with-start-waiting', 0) + 1
                if e[6] == 'NoneType':
                    sim.counters['c14.run-finishes-with-start-waiting'] = sim.counters.get('c14.run-finishes-with-start-waiting', 0) + 1
                if not 300 <= e[5][0] < 400:
                    res.append(Violation('C14.status-not-busy', 'start-waiting',
                                         f'a run ended while the next start was waiting (requested and acknowledged before), '
                                         f'and the module published {e[5]} before it went busy again: '
                                         f'{[x[2:6] for x in ev][-8:]}'))
                    return res
        # the most recent request wins: a stop accepted by a running machine (also one which is in its stop cleanup
        # already, with a new start waiting) is not followed by a complete run unless a new start was requested
        sreq = [e for e in ev if e[2] == 'stop-req' and e[3]]
        if sreq:
            last = sreq[-1]
            done = next((e for e in ev if e[2] == 'stop-done' and e[0] > last[0]), None)
            if done is not None and not any(e[2] == 'start-req' and e[0] > last[0] for e in ev):
                if last[4] == 'Stop':
                    sim.counters['c14.stop-during-stop-cleanup'] = sim.counters.get('c14.stop-during-stop-cleanup', 0) + 1
                begun = next((e for e in ev if e[2] == 'run-begin' and e[0] > done[0]), None)
                if begun is not None and any(e[2] == 'finishing' and e[3] == 'reached' and e[0] > begun[0] for e in ev):
                    # why?  stop_machine found the machine inactive (it was between the end of the cleanup and the
                    # pick-up of the waiting start: the test is not synchronised with the cycling thread), or it saw
                    # it running and did not post the stop, or the posted stop got lost
                    why = 'inactive-at-test' if done[3] is False else 'seen-active'
                    res.append(Violation('C14.stop-ignored', f'run-after-last-stop|{why}',
                                         f'the last request was a stop (machine active, cleanup reason {last[4]}), but '
                                         f'afterwards a run began and reached its goal: {[x[2:5] for x in ev][-10:]}'))
                    return res
        # final status
        if ctx['final_active']:
            res.append(Violation('C14.module-never-finished', 'active', f'machine still active at the end; status {ctx["final_status"]}'))
            return res
        if starts:
            code, text = ctx['final_status']
            stops = [r for r in ctx['reqs'] if r['op']['kind'] == 'stop']
            ends = [e[1] for e in ev if e[2] in ('inactive', 'finishing')]
            raced = text == 'stopping' and any(any(r['t0'] - 0.01 <= t <= r['t1'] + 0.01 for t in ends) for r in stops)
            # the same unsynchronised stop, met while the cleanup sequence hands over to a waiting start: the
            # transition worked out the busy status of that start, the stop replaced it meanwhile
            handover = any(e[2] == 'to-idle' and e[3] == 'Start' and not e[4] for e in ev) and \
                any(any(r['t0'] - 0.01 <= t <= r['t1'] + 0.01 for t in ends) for r in stops)
            if 300 <= code < 400:
                res.append(Violation('C14.final-status-busy',
                                     'stop-raced-finish' if raced else 'stop-raced-handover' if handover else f'{code}',
                                     f'machine inactive but status is {ctx["final_status"]}'))
            elif raced:
                res.append(Violation('C14.wrong-final-status', 'stop-raced-finish',
                                     f'machine inactive, status stuck at {ctx["final_status"]}'))
            elif updates and (updates[-1][1], updates[-1][2]) != (code, text):
                res.append(Violation('C14.final-status-not-announced', f'{code}',
                                     f'last status update {updates[-1][1:3]} but the module holds {ctx["final_status"]}'))
            else:
                # which end did the last run take?
                last_start = starts[-1]
                tail = [e for e in ev if e[0] > last_start[0]]
                kinds = [e[2] if e[2] != 'finishing' else e[3] for e in tail]
                want = None
                enders = [k for k in kinds if k in ('on-stop', 'reached', 'error')]
                overlapping = any(r['t1'] > last_start[1] - 0.01 and r['op']['kind'] in ('stop', 'change') and
                                  r['t0'] > last_start[1] and
                                  any(abs(t - r['t0']) < 0.05 or abs(t - r['t1']) < 0.05 or r['t0'] <= t <= r['t1'] for t in ends)
                                  for r in ctx['reqs'])
                if len(enders) != 1 or overlapping or last_start[4]:
                    pass         # the end of the run raced with a request: no single expected final status
                elif 'on-stop' in kinds:
                    want = (100, 'stopped')
                elif 'reached' in kinds:
                    want = (100, 'reached')
                elif 'error' in kinds:
                    want = (400, None)
                if want and (code != want[0] or (want[1] is not None and text != want[1])):
                    res.append(Violation('C14.wrong-final-status', f'{want[0]}',
                                         f'the last run ended by {[k for k in kinds if k in ("on-stop", "reached", "error")]}: '
                                         f'expected status {want}, module holds {ctx["final_status"]}'))
        return res

    def main_machine(self, sim, case, ctx):
        shape = case['shape']
        ctx['world'] = env.World(sim)
        trace = ctx['trace'] = []
        counters = {}

        def rec(*ev):
            if not sim.finished:
                trace.append((sim.next_seq(),) + ev)

        def attrs_of(sm):
            return {k: getattr(sm, k, None) for k in ('a', 'b', 'c')}

        state_fns = {}

        def make_state(idx, tag):
            name = f'S{idx}{tag}'

            def fn(sm):
                k = counters.get(idx, 0)
                counters[idx] = k + 1
                step = shape['states'][idx][k % len(shape['states'][idx])]
                rec('state', name, bool(sm.init), attrs_of(sm), getattr(getattr(sm, 'cleanup', None), '__name__', None))
                sim.yield_point()
                kind = step[0]
                if kind == 'retry':
                    return Retry
                if kind == 'next':
                    return state_fns[step[1]]
                if kind == 'self':
                    return fn
                if kind == 'finish':
                    return Finish
                if kind == 'raise':
                    sim.count('c14.error-in-state')
                    raise ValueError(f'state {name} fails')
                return step[1]
            fn.__name__ = name
            return fn
        for i in range(NSTATES):
            state_fns[i] = make_state(i, '')

        def make_chain(cid, k):
            steps = shape['chains'][cid]
            fns = []
            progress = {}

            def make_step(j):
                name = f'K{cid}.{j}#{k}'

                def fn(sm):
                    n = progress.get(j, 0)
                    progress[j] = n + 1
                    rec('chainstate', name, bool(sm.init), k)
                    sim.yield_point()
                    st = steps[j]
                    if n < st['retries']:
                        return Retry
                    if st['then'] == 'next' and j + 1 < len(steps):
                        return fns[j + 1]
                    rec('chain-end', k)
                    if st['then'] == 'raise':
                        raise RuntimeError('cleanup chain state fails')
                    if st['then'] == 'none':
                        return None
                    return Finish
                fn.__name__ = name
                return fn
            for j in range(len(steps)):
                fns.append(make_step(j))
            return fns[0]

        def make_cleanup(kind, k):
            if kind is None:
                return None
            name = f'cleanup#{k}'

            def fn(sm):
                rec('cleanup', name, k, type(sm.cleanup_reason).__name__)
                sim.yield_point()
                if kind in ('none', 'raise', 'noncallable'):
                    rec('chain-end', k)
                if kind == 'none':
                    return None
                if kind == 'raise':
                    sim.count('c14.error-in-cleanup')
                    raise KeyError('cleanup fails')
                if kind == 'noncallable':
                    # (what a cleanup function handing back the reply of the hardware may return)
                    return [42, 0, False, '', (), 0.0, 'ok'][k % 7]
                sim.count('c14.cleanup-chain')
                return make_chain(int(kind[-1]), k)
            fn.__name__ = name
            return fn

        def hook(sm, newstate):
            rec('transition', getattr(newstate, '__name__', None))
        sm = StateMachine(logger=ctx['world'].logger('sm'), transition=hook)
        sm.maxloops = shape['maxloops']
        ctx['sm'] = sm
        if shape['initial'] is not None:
            entry = make_state(shape['initial'], '#init')
            rec('cmd', 'start', 'init', entry.__name__, {}, None)
            sm.start(entry)
            rec('cmddone', 'init')
        done = [False]
        cycles = [0]

        def cycler():
            while not done[0]:
                rec('cycle-begin', cycles[0])
                try:
                    sm.cycle()
                    rec('cycle-end', cycles[0], None)
                except Exception as e:   # noqa
                    rec('cycle-end', cycles[0], repr(e))
                cycles[0] += 1
                sim.yield_point()
                time.sleep(0.01)

        def commander():
            for k, op in enumerate(case['ops']):
                for _ in range(op['gap']):
                    time.sleep(0.01)
                try:
                    if op['kind'] == 'start':
                        entry = make_state(op['state'], f'#{k}')
                        cl = make_cleanup(op['cleanup'], k)
                        kwds = dict(op['attrs'])
                        if cl is not None or op['cleanup'] is None and k % 2:
                            kwds['cleanup'] = cl
                        rec('cmd', 'start', k, entry.__name__, dict(op['attrs']), getattr(cl, '__name__', None),
                            bool(sm.is_active), type(sm.cleanup_reason).__name__)
                        sm.start(entry, **kwds)
                        rec('cmddone', k)
                    elif op['kind'] == 'stop':
                        rec('cmd', 'stop', k, None, None, None, bool(sm.is_active), type(sm.cleanup_reason).__name__)
                        sm.stop()
                        rec('cmddone', k)
                    else:
                        target = cycles[0] + op['cycles']
                        sim.wait_until(lambda: cycles[0] >= target, 5, what='wait cycles')
                except Exception as e:   # noqa
                    rec('cmd-raised', k, repr(e))
        t1 = threading.Thread(target=cycler, name='cycler')
        t2 = threading.Thread(target=commander, name='commander')
        t1.start()
        t2.start()
        t2.join()
        # let the machine settle: enough cycles for any cleanup chain in progress plus the hand-over
        longest = max(sum(s['retries'] + 1 for s in ch) for ch in shape['chains'])
        target = cycles[0] + 4 + longest + shape['maxloops']
        sim.wait_until(lambda: cycles[0] >= target, 60, what='settle')
        ctx['settled_cycles'] = cycles[0]
        rec('settled', bool(sm.is_active), getattr(sm.statefunc, '__name__', None))
        done[0] = True
        t1.join()

    # ------------------------------------------------------------------ oracle
    def observation(self, sim, case, ctx):
        if case['shape'].get('mode') == 'module':
            return [ln.raw for _s, _t, ln in ctx['client'].lines], [e[2:] for e in ctx['mevents']]
        return ctx.get('trace')

    def nontrivial(self, sim, case, ctx):
        return sim.counters.get('c14.interrupt-while-active', 0) >= 1 and sim.nchoice2 >= 1

    def judge(self, sim, case, ctx):
        if case['shape'].get('mode') == 'module':
            return self.judge_module(sim, case, ctx)
        res = []
        shape = case['shape']
        trace = ctx['trace']
        cnt = sim.counters

        def bump(k):
            cnt[k] = cnt.get(k, 0) + 1
        # A: nothing raises
        for ev in trace:
            if ev[1] == 'cycle-end' and ev[3]:
                res.append(Violation('C14.cycle-raised', ev[3].split('(')[0], f'cycle {ev[2]} raised {ev[3]}'))
                return res
            if ev[1] == 'cmd-raised':
                res.append(Violation('C14.command-raised', ev[3].split('(')[0], f'command {ev[2]} raised {ev[3]}'))
                return res
        # B: bounded number of calls per cycle
        bound = 2 * (shape['maxloops'] + 1)
        n = 0
        for ev in trace:
            if ev[1] == 'cycle-begin':
                n = 0
            elif ev[1] in ('state', 'chainstate', 'cleanup'):
                n += 1
                if n == shape['maxloops']:
                    bump('c14.loop-limit')
                if n > bound:
                    res.append(Violation('C14.cycle-unbounded', 'calls', f'more than {bound} state calls in one cycle '
                                                                          f'(maxloops {shape["maxloops"]})'))
                    return res
        # C: the init flag is seen by the first call after each transition, and only by it
        fresh = None     # name of the state entered by the last transition, not called yet
        for ev in trace:
            if ev[1] == 'transition':
                fresh = ev[2]
            elif ev[1] in ('state', 'chainstate'):
                name, init = ev[2], ev[3]
                expect = fresh is not None and fresh == name
                if init != expect:
                    res.append(Violation('C14.init-flag', 'missing' if expect else 'spurious',
                                         f'call of {name} saw init={init}; last transition went to {fresh!r} '
                                         f'(seq {ev[0]})'))
                    return res
                fresh = None
        # D: every cleanup function runs at most once
        seen = {}
        for ev in trace:
            if ev[1] == 'cleanup':
                seen[ev[3]] = seen.get(ev[3], 0) + 1
                if seen[ev[3]] > 1:
                    res.append(Violation('C14.cleanup-twice', ev[4], f'{ev[2]} called {seen[ev[3]]} times'))
                    return res
        # E: a cleanup sequence in progress is neither interrupted nor restarted
        in_chain = None    # k of the cleanup whose chain is running
        ended = set()
        for i, ev in enumerate(trace):
            if ev[1] == 'cleanup':
                if in_chain is not None:
                    res.append(Violation('C14.cleanup-interrupted', 'by-cleanup',
                                         f'{ev[2]} started while the cleanup sequence of start #{in_chain} was running'))
                    return res
                in_chain = ev[3]
            elif ev[1] == 'chain-end':
                ended.add(ev[2])
            elif ev[1] == 'transition':
                if ev[2] is None:
                    # the loop limit counts as an error inside the sequence (it ends it, as documented) - when it is
                    # the sequence itself which chained that many states in this cycle, not the run before it
                    ncalls = 0
                    for prev in reversed(trace[:i]):
                        if prev[1] == 'cycle-begin' or (prev[1] == 'cleanup' and prev[3] == in_chain):
                            break
                        if prev[1] == 'chainstate':
                            ncalls += 1
                    if in_chain is not None and in_chain not in ended and ncalls < shape['maxloops']:
                        res.append(Violation('C14.cleanup-interrupted', 'aborted',
                                             f'the cleanup sequence of start #{in_chain} was abandoned before its end '
                                             f'(machine went inactive at seq {ev[0]})'))
                        return res
                    in_chain = None
                elif in_chain is not None and ev[2].startswith('S') and '#' in ev[2]:
                    res.append(Violation('C14.cleanup-interrupted', 'by-start',
                                         f'start state {ev[2]} entered while the cleanup sequence of start #{in_chain} '
                                         f'had not ended'))
                    return res
                elif in_chain is not None and not ev[2].startswith('K'):
                    # a plain state entered from a cleanup chain? chains only go to chain states
                    pass
        # probes
        for ev in trace:
            if ev[1] == 'cmd' and len(ev) > 7:
                if ev[7]:
                    bump('c14.interrupt-while-active')
                if ev[8] != 'NoneType':
                    bump('c14.restart-during-cleanup' if ev[2] == 'start' else 'c14.stop-during-cleanup')
        cmds = [ev for ev in trace if ev[1] == 'cmd']
        for a, b in zip(cmds, cmds[1:]):
            if not any(e[1] == 'cycle-begin' and a[0] < e[0] < b[0] for e in trace):
                bump('c14.two-commands-before-cycle')
                break
        # F: starts take effect in the order they were issued (a superseded start never comes back)
        order = {}
        for ev in trace:
            if ev[1] == 'cmd' and ev[2] == 'start':
                order[ev[4]] = len(order)
        last = -1
        for ev in trace:
            if ev[1] == 'transition' and ev[2] in order:
                if order[ev[2]] < last:
                    res.append(Violation('C14.stale-start', 'reordered', f'{ev[2]} entered after a later start had taken effect'))
                    return res
                last = order[ev[2]]
        # G: the last command wins once things are quiet
        if cmds:
            lastcmd = cmds[-1]
            settled = next(ev for ev in trace if ev[1] == 'settled')
            if lastcmd[2] == 'stop':
                # a stop issued while inactive is consumed without effect; afterwards the machine must be inactive
                if settled[2]:
                    res.append(Violation('C14.stop-ignored', 'active', f'after the last stop the machine is still active '
                                                                       f'in {settled[3]} after {ctx["settled_cycles"]} cycles'))
            else:
                entry = lastcmd[4]
                ent = [ev for ev in trace if ev[1] == 'transition' and ev[2] == entry and ev[0] > lastcmd[0]]
                if not ent:
                    res.append(Violation('C14.start-lost', 'never-entered',
                                         f'the last command start({entry}) never took effect; machine settled '
                                         f'{"active in " + str(settled[3]) if settled[2] else "inactive"}'))
                else:
                    first = next((ev for ev in trace if ev[1] == 'state' and ev[2] == entry and ev[0] > ent[0][0]), None)
                    if first is not None:
                        want = dict(lastcmd[5])
                        got = {k: v for k, v in first[4].items() if k in want}
                        if got != want:
                            res.append(Violation('C14.start-attributes', 'attrs',
                                                 f'{entry} entered with attributes {first[4]}, start requested {want}'))
                        if first[5] != lastcmd[6]:
                            res.append(Violation('C14.start-attributes', 'cleanup',
                                                 f'{entry} entered with cleanup {first[5]!r}, start requested {lastcmd[6]!r}'))
        return res


CHECK = C14()
