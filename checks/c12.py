"""C12 -- client cache and callbacks mirror the node end to end

Mode 'peer': the real SecopClient receives generated message sequences
(update / error_update / reply / changed / error_read, unknown parameters,
module shorthand, malformed messages, timestamps in the future) from a
scripted peer while callbacks are registered and unregistered at node, module
and parameter level (some raising, some one-shot).
Mode 'e2e' / 'proxy': the real client talks to a real node with recording
drivers over the real TCP handler, directly or through a second real node
made of frappy.proxy modules; every datatype, valid values from the value set.
"""
import json
import threading
import time

from sim import dtgen, env, genmod, nodeworld, peer as simpeer
from sim.harness import Check, Violation

from frappy.client import SecopClient, UnregisterCallback
from frappy.io import HasIO
from frappy.proxy import proxy_class

from checks.c11 import ListLogger

PREDEF = ('value', 'status', 'target', 'pollinterval')


def internal(name):
    return name[1:] if name.startswith('_') and name[1:] not in PREDEF else name


def gen_description(rng):
    mods = {}
    for i in range(rng.choice([1, 2])):
        acc = {}
        if rng.random() < 0.8:
            acc['value'] = {'datainfo': dtgen.gen_datainfo(rng, 1), 'description': 'v', 'readonly': True}
        if rng.random() < 0.6:
            acc['target'] = {'datainfo': dtgen.gen_datainfo(rng, 1), 'description': 't', 'readonly': False}
        for j in range(rng.randrange(1, 4)):
            acc[f'_p{j}'] = {'datainfo': dtgen.gen_datainfo(rng, 2), 'description': f'p{j}', 'readonly': False}
        mods[f'm{i}'] = {'accessibles': acc, 'description': 'peer module', 'interface_classes': [], 'features': []}
    return {'modules': mods, 'equipment_id': 'peer', 'firmware': 'scripted', 'description': 'scripted peer'}


class C12(Check):
    ID = 'C12'
    TRACE_FILES = ('client/__init__.py',)
    TIERS = {'quick': {'runs': 9000, 'wall': 80}, 'thorough': {'runs': 300000, 'wall': 800}}
    RULE = ('[a third of the cases: the accepting side takes only 16 or 40 bytes at a time; e2e: writes to read-only parameters which the node refuses; peer restart with another description] ' 'case = (peer mode) generated description + <= 30 messages {update, error_update, reply, changed, '
            'error_read; unknown parameter, module shorthand, malformed, future timestamp} + callback '
            '(un)registrations at node/module/parameter level incl. raising and one-shot callbacks; or (e2e / proxy '
            'mode) generated node with recording drivers + setParameter/getParameter/execCommand with valid values of '
            'every datatype, optionally through a proxy node with a connection drop, 60 % with 2..11 background driver '
            'updates on parameters the operations do not use; distinct = different (case '
            'digest, schedule digest); non-trivial = >= 3 cache-relevant messages or >= 2 end-to-end operations')
    REAL = ['frappy.client.SecopClient (rx loop, updateValue, callbacks, setParameter/getParameter/execCommand)',
            'frappy.datatypes on both sides (get_datatype on the client, constructors on the node)',
            'frappy.errors.make_secop_error', 'e2e/proxy: full real node (C04 list) and frappy.proxy modules']
    STUB = ['peer mode: scripted SECoP server', 'TCP (sim.net)', 'hardware (fake driver)', 'clock']
    ASSUMPTIONS = ['values are compared in wire form by the harness\' own conversion (floats within resolution)',
                   'a registration is ordered against the message stream by a sync marker the peer sends']
    PROBES = ('c12.peer-mode', 'c12.refused-write', 'c12.small-receive-buffer', 'c12.e2e-mode', 'c12.proxy-mode', 'c12.driver-update', 'c12.mirror-compared',
              'c12.concurrent-writes', 'c12.malformed', 'c12.future-timestamp',
              'c12.shorthand', 'c12.raising-callback', 'c12.oneshot-callback', 'c12.proxy-drop',
              'c12.node-restart-added', 'c12.node-restart-changed', 'c12.node-restart-same', 'c12.partial-struct-written')

    def gen_case(self, rng, tier):
        mode = rng.choice(['peer', 'peer', 'e2e', 'e2e', 'proxy'])
        shape = {'p_switch': rng.choice([0.1, 0.3]), 'line_gaps': rng.choice([0, 0, 10]),
                 'seg_bias': rng.choice([1.0, 0.6, 0.2]), 'lat_bias': rng.choice([1.0, 0.7]), 'mode': mode,
                 'rcvbuf': rng.choice([None, None, 16, 40])}
        ops = []
        if mode == 'peer':
            desc = gen_description(rng)
            shape['description'] = desc
            params = [(m, a, d['datainfo']) for m, md in desc['modules'].items() for a, d in md['accessibles'].items()]
            ncb = 0
            for _ in range(rng.randrange(3, 31 if tier == 'thorough' else 20)):
                r = rng.random()
                if r < 0.2:
                    m, a, di = rng.choice(params)
                    level = rng.choice(['node', 'module', 'param'])
                    ops.append({'op': 'register', 'cb': ncb, 'level': level, 'm': m, 'a': a,
                                'kind': rng.choice(['updateEvent', 'updateItem']),
                                'behave': rng.choice(['ok', 'ok', 'ok', 'raise', 'oneshot'])})
                    ncb += 1
                elif r < 0.27 and ncb:
                    ops.append({'op': 'unregister', 'cb': rng.randrange(ncb)})
                else:
                    m, a, di = rng.choice(params)
                    action = rng.choice(['update', 'update', 'update', 'error_update', 'reply', 'changed', 'error_read'])
                    op = {'op': 'msg', 'm': m, 'a': a, 'action': action,
                          't': rng.choice([None, 5.0, 'future', 'past'])}
                    if action.startswith('error_'):
                        op['err'] = [rng.choice(['HardwareError', 'CommunicationFailed', 'RangeError', 'NoSuchThing',
                                                 'InternalError']),
                                     rng.choice(['plain text', 'ValueError: converted', 'TimeoutError: late', ''])]
                    else:
                        op['v'] = dtgen.valid_wire(rng, di)
                    q = rng.random()
                    if q < 0.08:
                        op['variant'] = rng.choice(['nodata', 'noqual', 'badjson', 'badvalue', 'unknown'])
                    elif q < 0.16 and ((a == 'target' and action == 'changed') or (a == 'value' and action != 'changed')):
                        op['variant'] = 'shorthand'     # 'm' stands for 'm:target' in changed, else for 'm:value'
                    ops.append(op)
            if rng.random() < 0.15:
                # the node is restarted with another description: the client loses the connection, reconnects by
                # itself and describes again; the messages after that belong to the new description
                how = rng.choice(['added', 'added', 'same', 'changed'])
                desc2 = json.loads(json.dumps(desc))
                if how == 'added':
                    extra = gen_description(rng)['modules']
                    desc2['modules']['m9'] = extra['m0']
                elif how == 'changed':
                    # (an accessible not used so far: the client keeps its cache over the reconnect, an entry of
                    # the old datatype would have to be judged by the old datainfo)
                    used = {(o['m'], o['a']) for o in ops if 'a' in o}
                    free = [(m, a) for m, a, _di in params if (m, a) not in used]
                    if free:
                        m, a = rng.choice(free)
                        desc2['modules'][m]['accessibles'][a]['datainfo'] = dtgen.gen_datainfo(rng, 1)
                    else:
                        how = 'same'
                shape['description2'] = desc2
                shape['restart_how'] = how
                params2 = [(m, a, d['datainfo']) for m, md in desc2['modules'].items() for a, d in md['accessibles'].items()]
                new = [x for x in params2 if x[0] == 'm9'] or params2
                ops.append({'op': 'restart'})
                for _ in range(rng.randrange(2, 8)):
                    m, a, di = rng.choice(new if rng.random() < 0.6 else params2)
                    if rng.random() < 0.25:
                        level = rng.choice(['node', 'module', 'param'])
                        ops.append({'op': 'register', 'cb': ncb, 'level': level, 'm': m, 'a': a,
                                    'kind': rng.choice(['updateEvent', 'updateItem']), 'behave': 'ok'})
                        ncb += 1
                    action = rng.choice(['update', 'update', 'error_update', 'reply', 'changed'])
                    op = {'op': 'msg', 'm': m, 'a': a, 'action': action, 't': rng.choice([None, 5.0])}
                    if action.startswith('error_'):
                        op['err'] = ['HardwareError', 'plain text']
                    else:
                        op['v'] = dtgen.valid_wire(rng, di)
                    ops.append(op)
        else:
            specs = [genmod.gen_module_spec(rng, f'm{i}', depth=rng.choice([1, 2]), full=True)
                     for i in range(rng.choice([1, 2]))]
            for s in specs:
                s['enablePoll'] = rng.random() < 0.4
                s['pollinterval'] = 0.5
                for p in s['params']:
                    if p.get('export') is not True:
                        p['export'] = True
                    p['limits'] = None
                    p['veto'] = None
                    p['constant'] = None
            shape['specs'] = specs
            for _ in range(rng.randrange(2, 16)):
                s = rng.choice(specs)
                r = rng.random()
                if r < 0.5:
                    cands = [p for p in s['params'] if not p['readonly']]
                    if cands:
                        p = rng.choice(cands)
                        ops.append({'op': 'set', 'm': s['name'], 'p': p['name'], 'v': dtgen.valid_wire(rng, p['di']),
                                    'ret': rng.choice(['same', 'other']),
                                    'v2': dtgen.valid_wire(rng, p['di'])})
                        if dtgen.has_struct(p['di']) and rng.random() < 0.4:
                            # the complete value is written first, then the same with optional members of structs (at any
                            # depth) left out: the node fills them in from the current value
                            def prune(di, w):
                                if di['type'] == 'array':
                                    return [prune(di['members'], e) for e in w]
                                if di['type'] == 'tuple':
                                    return [prune(m, e) for m, e in zip(di['members'], w)]
                                if di['type'] == 'struct':
                                    opt = di['optional'] if 'optional' in di else list(di['members'])
                                    return {k: prune(di['members'][k], e) for k, e in w.items()
                                            if k not in opt or rng.random() < 0.5}
                                return w
                            ops[-1]['partial'] = prune(p['di'], ops[-1]['v'])
                            ops[-1]['ret'] = 'same'
                elif r < 0.62 and [p for p in s['params'] if not p['readonly'] and p.get('write')]:
                    # two threads write different values to the same parameter through the one client while the
                    # hardware is slow: both must reach the driver, each caller gets its own result
                    p = rng.choice([p for p in s['params'] if not p['readonly'] and p.get('write')])
                    ops.append({'op': 'pairset', 'm': s['name'], 'p': p['name'], 'v': dtgen.valid_wire(rng, p['di']),
                                'v2': dtgen.valid_wire(rng, p['di']), 'dur': rng.choice([0.01, 0.1, 0.5])})
                elif r < 0.8 or not s['cmds']:
                    p = rng.choice(s['params'])
                    ops.append({'op': 'get', 'm': s['name'], 'p': p['name'], 'v': dtgen.valid_wire(rng, p['di'])})
                else:
                    c = rng.choice([c for c in s['cmds'] if c.get('export', True)] or s['cmds'])
                    if c.get('export', True):
                        op = {'op': 'exec', 'm': s['name'], 'c': c['name']}
                        if c.get('arg'):
                            op['v'] = dtgen.valid_wire(rng, c['arg'])
                        ops.append(op)
            ro = [(s, p) for s in specs for p in s['params'] if p['readonly'] and p.get('export', True)]
            if ro and mode == 'e2e' and rng.random() < 0.4:
                # a change which the node refuses (the parameter is read-only): the caller gets the error, the cache
                # keeps what the last update / reply said
                s, p = rng.choice(ro)
                ops.insert(rng.randrange(len(ops) + 1), {'op': 'set_refused', 'm': s['name'], 'p': p['name'],
                                                         'v': dtgen.valid_wire(rng, p['di'])})
            if mode == 'proxy':
                # frappy.proxy can not forward commands with tuple or struct arguments (observation, see DESIGN.md);
                # the property speaks about values written, so they are left out here
                for s in specs:
                    s['cmds'] = [c for c in s['cmds'] if not c.get('arg') or c['arg']['type'] not in ('tuple', 'struct')]
                ops = [o for o in ops if o['op'] != 'exec' or any(c['name'] == o['c'] for s in specs if s['name'] == o['m']
                                                                   for c in s['cmds'])]
            if mode == 'proxy' and rng.random() < 0.4:
                ops.insert(rng.randrange(len(ops) + 1), {'op': 'drop'})
            # meanwhile the drivers of the node announce new values on their own (second sender on the connection)
            bg = []
            used = {(o['m'], o.get('p')) for o in ops if 'm' in o}
            free = [(s, p) for s in specs for p in s['params'] if (s['name'], p['name']) not in used]
            if free and rng.random() < 0.6:
                for _ in range(rng.randrange(2, 12)):
                    # (parameters which the foreground operations do not use: their read-back is judged exactly)
                    s, p = rng.choice(free)
                    bg.append({'m': s['name'], 'p': p['name'], 'v': dtgen.valid_wire(rng, p['di']),
                               'dt': rng.choice([0, 0, 0.001, 0.05, 0.3])})
            return {'shape': shape, 'ops': ops, 'faults': bg}
        return {'shape': shape, 'ops': ops}

    def shrink_candidates(self, case):
        sh = case['shape']
        if sh['line_gaps']:
            yield dict(case, shape=dict(sh, line_gaps=0))
        if sh['seg_bias'] < 1 or sh['lat_bias'] < 1:
            yield dict(case, shape=dict(sh, seg_bias=1.0, lat_bias=1.0))
        if sh['mode'] == 'proxy':
            yield dict(case, shape=dict(sh, mode='e2e'), ops=[o for o in case['ops'] if o['op'] != 'drop'])

    # ------------------------------------------------------------------ run
    def main(self, sim, case, ctx):
        shape = case['shape']
        world = ctx['world'] = env.World(sim, shape['seg_bias'], shape['lat_bias'])
        ctx['clientlog'] = []
        HasIO.ioDict.clear()
        # whoever accepts a connection takes only a few bytes at a time: longer requests need several send calls
        world.net.accept_rcvbuf = shape.get('rcvbuf')
        if shape.get('rcvbuf'):
            sim.count('c12.small-receive-buffer')
        if shape['mode'] == 'peer':
            sim.count('c12.peer-mode')
            self.main_peer(sim, case, ctx, world)
        else:
            sim.count('c12.proxy-mode' if shape['mode'] == 'proxy' else 'c12.e2e-mode')
            self.main_e2e(sim, case, ctx, world)

    # ---- peer mode
    def main_peer(self, sim, case, ctx, world):
        shape = case['shape']
        desc = shape['description']
        initial = {a: dtgen.valid_wire(__import__('random').Random(1), d['datainfo'])
                   for md in desc['modules'].values() for a, d in md['accessibles'].items()}
        pr = simpeer.Peer(world, {'script_activate': True}, description=desc)
        syncs = []

        def handler(peer, conn, req):
            if req['action'] == 'activate':
                return [(0, b'active\n')]
            return [(0, f'pong {req["spec"] or ""} [null, {{}}]\n'.encode())]
        pr.handler = handler
        cl = SecopClient('tcp://simhost:10767', log=ListLogger(ctx['clientlog'], sim))
        cl.register_callback(None, unhandledMessage=lambda a, i, d: syncs.append(i))
        cl.connect()
        conn = pr.conns[-1]
        events = ctx['events'] = []      # chronological: ('msg', k, ...) / ('cb', ...) / ('reg', ...)
        cbs = {}
        model = ctx['model'] = {}        # (module, internal param) -> expected entry
        dis = {(m, internal(a)): d['datainfo'] for m, md in desc['modules'].items() for a, d in md['accessibles'].items()}
        ctx['dis'] = dis
        nsync = [0]

        def sync():
            nsync[0] += 1
            tok = f'sync{nsync[0]}'
            pr.schedule(conn, 0, f'pong {tok} [null, {{}}]\n'.encode())
            if not sim.wait_until(lambda: tok in syncs, 60, what='sync'):
                raise RuntimeError('peer sync marker not seen by the client')

        def make_cb(op):
            cbid = op['cb']

            def record(kind, module, param, value, timestamp, readerror):
                try:
                    w = None if readerror else dtgen.to_wire(dis[module, param], value)
                except Exception as e:   # noqa
                    w = f'<unexportable {e!r}>'
                events.append(('cb', cbid, kind, module, param, w, timestamp,
                               None if readerror is None else [type(readerror).__name__, str(readerror)]))
                if op['behave'] == 'raise':
                    sim.count('c12.raising-callback')
                    raise ValueError('callback failure')
                if op['behave'] == 'oneshot':
                    sim.count('c12.oneshot-callback')
                    raise UnregisterCallback()
            if op['kind'] == 'updateEvent':
                def updateEvent(module, param, value, timestamp, readerror):
                    record('updateEvent', module, param, value, timestamp, readerror)
                return updateEvent
            def updateItem(module, param, item):
                record('updateItem', module, param, item.value, item.timestamp, item.readerror)
            return updateItem

        for k, op in enumerate(case['ops']):
            if op['op'] == 'register':
                sync()
                fn = make_cb(op)
                key = None if op['level'] == 'node' else op['m'] if op['level'] == 'module' else (op['m'], internal(op['a']))
                cbs[op['cb']] = (key, fn, op)
                events.append(('reg', op['cb'], op['kind'], repr(key), op['behave'], sim.vnow()))
                cl.register_callback(key, fn)
                events.append(('regdone', op['cb']))
            elif op['op'] == 'restart':
                sync()
                sim.count('c12.node-restart-' + shape['restart_how'])
                # (callbacks are taken off first: what they see while the connection is down is not judged)
                for cbid, (key, fn, _) in sorted(cbs.items()):
                    events.append(('unreg', cbid))
                    try:
                        cl.unregister_callback(key, fn)
                    except Exception as e:   # noqa
                        events.append(('unreg-raised', cbid, repr(e)))
                cbs.clear()
                desc2 = shape['description2']
                pr.description = desc2
                dis.update({(m, internal(a)): d['datainfo'] for m, md in desc2['modules'].items()
                            for a, d in md['accessibles'].items()})
                nconn = len(pr.conns)
                pr.schedule(conn, 0, ('close',))
                if not sim.wait_until(lambda: len(pr.conns) > nconn and cl.state == 'connected', 120, what='reconnect'):
                    raise RuntimeError('the client did not reconnect to the restarted peer')
                conn = pr.conns[-1]
                sync()
                events.append(('restart', sim.vnow()))
            elif op['op'] == 'unregister':
                if op['cb'] in cbs:
                    sync()
                    key, fn, _ = cbs.pop(op['cb'])
                    events.append(('unreg', op['cb']))
                    try:
                        cl.unregister_callback(key, fn)
                    except Exception as e:   # noqa
                        events.append(('unreg-raised', op['cb'], repr(e)))
            else:
                now = sim.now
                t = {None: None, 5.0: 5.0, 'future': now + 1000.0, 'past': now - 50.0}[op['t']]
                qual = {} if t is None else {'t': t}
                spec = f'{op["m"]}:{op["a"]}'
                variant = op.get('variant')
                if variant == 'shorthand':
                    spec = op['m']
                    sim.count('c12.shorthand')
                if variant == 'unknown':
                    spec = f'{op["m"]}:_zzz'
                if op['action'].startswith('error_'):
                    data = [op['err'][0], op['err'][1], qual]
                else:
                    data = [op['v'], qual]
                text = f'{op["action"]} {spec} {json.dumps(data)}'
                if variant == 'nodata':
                    text = f'{op["action"]} {spec}'
                elif variant == 'noqual':
                    text = f'{op["action"]} {spec} {json.dumps(data[:1])}'
                elif variant == 'badjson':
                    text = f'{op["action"]} {spec} [1, {{'
                elif variant == 'badvalue':
                    text = f'{op["action"]} {spec} {json.dumps([[[["x"]]], qual])}' if not op['action'].startswith('error_') \
                        else f'{op["action"]} {spec} {json.dumps(["X"])}'
                if variant in ('nodata', 'noqual', 'badjson', 'badvalue', 'unknown'):
                    sim.count('c12.malformed')
                if op['t'] == 'future':
                    sim.count('c12.future-timestamp')
                events.append(('msg', k, op, t, sim.vnow()))
                pr.schedule(conn, 0, (text + '\n').encode())
        sync()
        ctx['t_end'] = sim.now
        ctx['cache'] = {}
        for key, item in cl.cache.items():
            try:
                w = None if item.readerror else dtgen.to_wire(dis[key], item.value)
            except Exception as e:   # noqa
                w = f'<unexportable {e!r}>'
            ctx['cache'][key] = (w, item.timestamp, None if item.readerror is None else
                                 [type(item.readerror).__name__, str(item.readerror), getattr(item.readerror, 'name', None)])
        ctx['initial'] = initial
        cl.disconnect()

    # ---- end to end
    def main_e2e(self, sim, case, ctx, world):
        shape = case['shape']
        drv = ctx['drv'] = genmod.Driver(sim)
        node = nodeworld.Node(world, 'a', shape['specs'], drv, port=10767)
        ctx['cleanup'] = [node.forget, HasIO.ioDict.clear]
        port = 10767
        if shape['mode'] == 'proxy':
            cfg = {}
            pclasses = []
            for spec, cls in zip(shape['specs'], node.classes):
                pcls = proxy_class(cls)
                pclasses.append(pcls)
                cfg[spec['name']] = {'cls': pcls, 'description': f'proxy of {spec["name"]}',
                                     'uri': 'tcp://simhost:10767', 'module': spec['name']}
            srvb = world.make_server('b', cfg)
            srvb._processCfg()
            world.serve(srvb, 10768)
            ctx['cleanup'].append(lambda: env.forget_classes(*pclasses))
            ctx['nodeb'] = srvb
            port = 10768
        cl = SecopClient(f'tcp://simhost:{port}', log=ListLogger(ctx['clientlog'], sim))
        cl.connect()
        results = ctx['results'] = []
        di_of = {(s['name'], p['name']): p['di'] for s in shape['specs'] for p in s['params']}
        cmd_of = {(s['name'], c['name']): c for s in shape['specs'] for c in s['cmds']}
        me = threading.current_thread().name

        def updater():
            for u in case.get('faults') or ():
                if u['dt']:
                    time.sleep(u['dt'])
                else:
                    sim.yield_point()
                mobj = node.secnode.modules[u['m']]
                try:
                    value = dtgen.to_internal(di_of[u['m'], u['p']], u['v'])
                    drv.reg[u['m'], u['p']] = value
                    setattr(mobj, u['p'], value)
                    sim.count('c12.driver-update')
                except Exception:   # noqa
                    pass
        upd = threading.Thread(target=updater, name='updater')
        upd.start()
        for op in case['ops']:
            rec = {'op': op, 'ncalls': len(drv.calls), 'seq0': sim.next_seq()}
            try:
                if op['op'] == 'set':
                    di = di_of[op['m'], op['p']]
                    if op['ret'] == 'other':
                        drv.override[op['m'], 'write_' + op['p']] = dtgen.to_internal(di, op['v2'])
                    item = cl.setParameter(op['m'], op['p'], dtgen.to_internal(di, op['v']))
                    if op.get('partial') is not None:
                        sim.count('c12.partial-struct-written')
                        item = cl.setParameter(op['m'], op['p'], dtgen.to_internal(di, op['partial']))
                    rec['cache'] = self._item(di, item)
                elif op['op'] == 'set_refused':
                    di = di_of[op['m'], op['p']]
                    sim.count('c12.refused-write')
                    it0 = cl.cache.get((op['m'], op['p']))
                    rec['before'] = None if it0 is None else self._item(di, it0)
                    try:
                        cl.setParameter(op['m'], op['p'], dtgen.to_internal(di, op['v']))
                        rec['refused'] = None
                    except Exception as e:   # noqa
                        rec['refused'] = type(e).__name__
                    it1 = cl.cache.get((op['m'], op['p']))
                    rec['after'] = None if it1 is None else self._item(di, it1)
                elif op['op'] == 'pairset':
                    di = di_of[op['m'], op['p']]
                    sim.count('c12.concurrent-writes')
                    drv.scripts[f'{op["m"]}.write_{op["p"]}'] = [[op['dur'], 'ok']]
                    out = rec['pair'] = [None, None]

                    def one(i, v):
                        try:
                            out[i] = self._item(di, cl.setParameter(op['m'], op['p'], dtgen.to_internal(di, v)))
                        except Exception as e:   # noqa
                            out[i] = ['exc', type(e).__name__, str(e)[:200]]
                    ths = [threading.Thread(target=one, args=(i, v), name=f'writer{i}')
                           for i, v in enumerate((op['v'], op['v2']))]
                    for t in ths:
                        t.start()
                    for t in ths:
                        t.join()
                    drv.scripts.pop(f'{op["m"]}.write_{op["p"]}', None)
                elif op['op'] == 'get':
                    di = di_of[op['m'], op['p']]
                    drv.override[op['m'], 'read_' + op['p']] = dtgen.to_internal(di, op['v'])
                    item = cl.getParameter(op['m'], op['p'])
                    rec['cache'] = self._item(di, item)
                elif op['op'] == 'exec':
                    c = cmd_of[op['m'], op['c']]
                    arg = dtgen.to_internal(c['arg'], op['v']) if c.get('arg') else None
                    res, _qual = cl.execCommand(op['m'], op['c'], arg)
                    rec['result'] = None if not c.get('result') else dtgen.to_wire(c['result'], res)
                elif op['op'] == 'drop':
                    sim.count('c12.proxy-drop')
                    hs = [h for h in world.handlers if not h['done']]
                    # the connection between the proxy node and node A is the first one made
                    if hs:
                        hs[0]['sock'].inject_reset()
                    time.sleep(15)
                    rec['dropped'] = True
            except Exception as e:   # noqa
                rec['exc'] = [type(e).__name__, str(e)[:300]]
            rec['seq1'] = sim.next_seq()
            rec['calls'] = [c for c in drv.calls[rec['ncalls']:] if c['kind'] != 'check']
            drv.override.clear()
            results.append(rec)
        upd.join()
        # quiescence, then the mirror: what the client holds against what the node holds
        time.sleep(3)
        mirror = ctx['mirror'] = []

        def node_value(m, pn, di):
            pobj = node.secnode.modules[m].parameters[pn]
            try:
                return ['err'] if pobj.readerror else ['ok', dtgen.to_wire(di, pobj.value)]
            except Exception as e:   # noqa
                return ['unexportable', repr(e)]
        # (a poll of the node may change a value at any time and its update takes up to 0.6 s on the simulated network:
        # what the node holds is taken, the client is looked at 1 s later, and only values which the node still holds
        # then are compared)
        first = {(m, pn): node_value(m, pn, di) for (m, pn), di in di_of.items()}
        time.sleep(1.0)
        for (m, pn), di in di_of.items():
            pobj = node.secnode.modules[m].parameters[pn]
            if not pobj.export:
                continue
            item = cl.cache.get((m, pn))
            clientval = None if item is None else self._item(di, item)
            nodeval = node_value(m, pn, di)
            if nodeval != first[m, pn]:
                sim.count('c12.mirror-value-in-flight')
                continue
            mirror.append((m, pn, nodeval, clientval))
        cl.disconnect()
        if shape['mode'] == 'proxy':
            for m in ctx['nodeb'].secnode.modules.values():
                sn = getattr(m, 'secnode', None)
                if isinstance(sn, SecopClient):
                    sn.disconnect()
            ctx['nodeb'].secnode.shutdown_modules()
        node.shutdown()

    @staticmethod
    def _item(di, item):
        if item.readerror:
            return ['err', type(item.readerror).__name__, str(item.readerror)[:200]]
        try:
            return ['ok', dtgen.to_wire(di, item.value), item.timestamp]
        except Exception as e:   # noqa
            return ['unexportable', repr(e), repr(item.value)[:100]]

    # ------------------------------------------------------------------ oracle
    def observation(self, sim, case, ctx):
        return ctx.get('events'), [(r['op'], r.get('cache'), r.get('result'), r.get('exc')) for r in ctx.get('results', ())]

    def nontrivial(self, sim, case, ctx):
        if case['shape']['mode'] == 'peer':
            return sum(1 for o in case['ops'] if o['op'] == 'msg') >= 3
        return len(ctx.get('results', ())) >= 2

    def judge(self, sim, case, ctx):
        if case['shape']['mode'] == 'peer':
            return self.judge_peer(sim, case, ctx)
        return self.judge_e2e(sim, case, ctx)

    def judge_peer(self, sim, case, ctx):
        res = []
        dis = ctx['dis']
        # ---- reference model over the event list
        model = {}          # key -> (wire value, timestamp, error)
        active = {}         # cbid -> (key, kind, behave)
        expected_calls = []  # (cbid, module, param, wire, ts, err) in order
        events = ctx['events']
        got_calls = []
        pending_reg = None
        for ev in events:
            if ev[0] == 'reg':
                _, cbid, kind, keyrepr, behave, _t = ev
                key = eval(keyrepr)   # noqa: S307 (our own repr of None / str / tuple)
                # immediate call-back with the cached state
                if key is None:
                    entries = list(model.items())
                elif isinstance(key, tuple):
                    entries = [(key, model[key])] if key in model else []
                else:
                    entries = [(k, v) for k, v in model.items() if k[0] == key]
                keep = True
                for k, (w, ts, err) in entries:
                    expected_calls.append((cbid, k[0], k[1], w, ts, err))
                    if behave == 'oneshot':
                        keep = False
                if keep:
                    active[cbid] = (key, kind, behave)
            elif ev[0] == 'unreg':
                active.pop(ev[1], None)
            elif ev[0] == 'restart':
                pass      # the client keeps its cache over the reconnect
            elif ev[0] == 'unreg-raised':
                res.append(Violation('C12.unregister-raised', 'callback', f'unregister_callback raised {ev[2]}'))
            elif ev[0] == 'msg':
                _, k, op, t, sent_at = ev
                variant = op.get('variant')
                if variant in ('nodata', 'noqual', 'badjson', 'badvalue', 'unknown'):
                    continue
                a = op['a']
                if variant == 'shorthand':
                    a = 'target' if op['action'] == 'changed' else 'value'
                    if (op['m'], a) not in dis:
                        continue
                key = (op['m'], internal(a))
                if op['action'].startswith('error_'):
                    entry = (None, t, op['err'])
                else:
                    entry = (op['v'], t, None)
                model[key] = entry + (sent_at,)
                model[key] = (entry[0], (t, sent_at), entry[2])
                for cbid, (ckey, kind, behave) in list(active.items()):
                    if ckey is None or ckey == key[0] or ckey == key:
                        expected_calls.append((cbid, key[0], key[1], entry[0], (t, sent_at), entry[2]))
                        if behave == 'oneshot':
                            del active[cbid]
            elif ev[0] == 'cb':
                got_calls.append(ev[1:])

        def ts_ok(exp, got):
            """exp = (t in message or None, send time); got = cache timestamp"""
            if isinstance(exp, tuple):
                t, sent = exp
            else:
                return True
            now_hi = ctx['t_end'] + 1
            if got is None:
                return False
            if t is None:
                return sent + 1.7e9 - 1 <= got <= now_hi
            if t > sent + 1.7e9 + 500:       # future
                return got <= now_hi
            return abs(got - t) < 1e-6

        def err_ok(exp, got):
            if exp is None:
                return got is None
            if got is None:
                return False
            # error class rebuilt from the report
            return exp[1].split(': ', 1)[-1] in got[1] or got[1] in exp[1]

        # ---- cache equals the import of the last message
        for key, (w, ts, err) in model.items():
            got = ctx['cache'].get(key)
            di = dis[key]
            if got is None:
                res.append(Violation('C12.cache-missing', di['type'], f'{key}: expected {w!r}/{err!r}, no cache entry'))
                continue
            gw, gts, gerr = got
            if err is None:
                if gerr is not None or not dtgen.wire_equal(di, w, gw):
                    res.append(Violation('C12.cache-mismatch', di['type'],
                                         f'{key}: last message carried {w!r}, cache holds {gw!r} error {gerr!r}'))
            elif not err_ok(err, gerr):
                res.append(Violation('C12.cache-mismatch', 'error', f'{key}: last message carried error {err!r}, cache '
                                                                     f'holds {gw!r} error {gerr!r}'))
            if not ts_ok(ts, gts):
                res.append(Violation('C12.timestamp', 'future' if gts and gts > ctx['t_end'] + 1 else 'other',
                                     f'{key}: message timestamp/send time {ts!r}, cache timestamp {gts!r}, now {ctx["t_end"]!r}'))
        for key in ctx['cache']:
            if key not in model and key not in dis:
                res.append(Violation('C12.cache-phantom', 'unknown-parameter', f'cache entry {key} for an undescribed parameter'))
        # ---- callbacks: exactly once per message, in arrival order
        def norm(c):
            cbid, module, param, w, ts, err = c
            return cbid, module, param
        exp_seq = [norm(c) for c in expected_calls]
        got_seq = [(c[0], c[2], c[3]) for c in got_calls]
        if sorted(exp_seq) != sorted(got_seq):
            missing = [c for c in exp_seq if exp_seq.count(c) > got_seq.count(c)]
            extra = [c for c in got_seq if got_seq.count(c) > exp_seq.count(c)]
            res.append(Violation('C12.callback-count', 'missing' if missing else 'extra',
                                 f'callback invocations differ: missing {missing[:4]} extra {extra[:4]}'))
        else:
            # per callback the order of (module, param) must be the arrival order
            for cbid in {c[0] for c in exp_seq}:
                e = [c for c in exp_seq if c[0] == cbid]
                g = [c for c in got_seq if c[0] == cbid]
                if e != g:
                    # registration call-backs over several cache entries have no defined order
                    if sorted(e) == sorted(g) and len({c[1:] for c in e}) > 1 and e[:1] != g[:1]:
                        continue
                    res.append(Violation('C12.callback-order', 'order', f'callback {cbid}: expected {e[:6]} got {g[:6]}'))
                    break
            # values handed to callbacks
            by = {}
            for c in expected_calls:
                by.setdefault(norm(c), []).append(c)
            gy = {}
            for c in got_calls:
                gy.setdefault((c[0], c[2], c[3]), []).append(c)
            for k, lst in by.items():
                for e, g in zip(lst, gy.get(k, ())):
                    di = dis[k[1], k[2]]
                    if e[5] is None and (g[6] is not None or not dtgen.wire_equal(di, e[3], g[4])):
                        res.append(Violation('C12.callback-value', di['type'],
                                             f'callback {k}: message carried {e[3]!r}, callback got {g[4]!r} error {g[6]!r}'))
                        return res
        return res

    def judge_e2e(self, sim, case, ctx):
        res = []
        shape = case['shape']
        di_of = {(s['name'], p['name']): p for s in shape['specs'] for p in s['params']}
        cmd_of = {(s['name'], c['name']): c for s in shape['specs'] for c in s['cmds']}
        dropped = any(r['op']['op'] == 'drop' for r in ctx['results'])
        errlog = [l for l in ctx['clientlog'] if l[0] in ('ERROR', 'WARNING') and 'error handling SECoP message' in str(l[1])]
        if errlog and not dropped:
            res.append(Violation('C12.malformed-message-at-client', shape['mode'],
                                 f'the client could not handle a message of the node: {errlog[0][1][:300]!r}'))
        if not dropped:
            for m, pn, nodeval, clientval in ctx.get('mirror', ()):
                sim.counters['c12.mirror-compared'] = sim.counters.get('c12.mirror-compared', 0) + 1
                if nodeval[0] != 'ok' or clientval is None:
                    continue
                di = di_of_plain = next(p['di'] for s in shape['specs'] if s['name'] == m for p in s['params'] if p['name'] == pn)
                if clientval[0] != 'ok' or not dtgen.wire_equal(di, nodeval[1], clientval[1]):
                    res.append(Violation('C12.cache-not-mirrored', f'{shape["mode"]}|{di["type"]}',
                                         f'{m}:{pn}: the node holds {nodeval[1]!r}, the client cache {clientval!r} '
                                         f'3 s after the last operation'))
                    break
        dropped = False
        for rec in ctx['results']:
            op = rec['op']
            if op['op'] == 'drop':
                dropped = True
                continue
            tag = shape['mode']
            if 'exc' in rec:
                if dropped and rec['exc'][0] in ('CommunicationFailedError', 'ConnectionError', 'TimeoutError',
                                                 'SECoPError', 'HardwareError'):
                    continue
                res.append(Violation('C12.operation-failed', f'{tag}|{op["op"]}|{rec["exc"][0]}',
                                     f'{op}: raised {rec["exc"]}'))
                continue
            if op['op'] == 'set_refused':
                if rec.get('refused') is None:
                    res.append(Violation('C12.refused-write', 'no-error', f'{op}: no exception for a write to a read-only parameter'))
                elif rec.get('after') and rec['after'][0] == 'err' and rec['after'][1] == rec['refused'] and \
                        (rec.get('before') or ['?'])[0] != 'err':
                    res.append(Violation('C12.cache-changed-by-refused-write', tag,
                                         f'{op}: the node refused the change ({rec["refused"]}); the cache entry went from '
                                         f'{rec.get("before")} to {rec["after"]} (an error_change is none of the messages '
                                         f'the cache follows)'))
                continue
            if op['op'] == 'set':
                p = di_of[op['m'], op['p']]
                di = p['di']
                writes = [c for c in rec['calls'] if c['kind'] == 'write' and c['name'] == op['p'] and c['mod'] == op['m']]
                if p.get('write'):
                    if len(writes) != 1 and op.get('partial') is None:
                        res.append(Violation('C12.driver-calls', f'{tag}|set', f'{op}: driver write calls {writes}'))
                        continue
                    if op.get('partial') is not None:
                        # two writes: the complete value, then the same value with optional members left out
                        if len(writes) != 2 or not all(dtgen.wire_equal(di, op['v'], w_['arg']) for w_ in writes):
                            res.append(Violation('C12.value-changed-on-the-way', f'{tag}|partial|{di["type"]}',
                                                 f'setParameter({op["m"]}, {op["p"]}, {op["v"]!r}) and then again with '
                                                 f'optional members left out ({op["partial"]!r}): the driver received '
                                                 f'{[w_["arg"] for w_ in writes]!r} (datainfo {di})'))
                        elif rec['cache'][0] != 'ok' or not dtgen.wire_equal(di, op['v'], rec['cache'][1]):
                            res.append(Violation('C12.readback-mismatch', f'{tag}|partial|{di["type"]}',
                                                 f'setParameter({op["m"]}, {op["p"]}, {op["partial"]!r}): client cache holds '
                                                 f'{rec["cache"]!r}, the node {op["v"]!r}'))
                        continue
                    if not dtgen.wire_equal(di, op['v'], writes[0]['arg']):
                        res.append(Violation('C12.value-changed-on-the-way', f'{tag}|{di["type"]}',
                                             f'setParameter({op["m"]}, {op["p"]}, {op["v"]!r}): the driver received '
                                             f'{writes[0]["arg"]!r} (datainfo {di})'))
                    back = op['v2'] if op['ret'] == 'other' else op['v']
                else:
                    back = op['v']
                if rec['cache'][0] != 'ok' or not dtgen.wire_equal(di, back, rec['cache'][1]):
                    res.append(Violation('C12.readback-mismatch', f'{tag}|{di["type"]}',
                                         f'setParameter({op["m"]}, {op["p"]}, {op["v"]!r}): driver returned {back!r}, '
                                         f'client cache holds {rec["cache"]!r} (datainfo {di})'))
            elif op['op'] == 'pairset':
                p = di_of[op['m'], op['p']]
                di = p['di']
                writes = [c for c in rec['calls'] if c['kind'] == 'write' and c['name'] == op['p'] and c['mod'] == op['m']]
                want = [op['v'], op['v2']]
                got = [w['arg'] for w in writes]
                ok = len(got) == 2 and ((dtgen.wire_equal(di, want[0], got[0]) and dtgen.wire_equal(di, want[1], got[1])) or
                                        (dtgen.wire_equal(di, want[0], got[1]) and dtgen.wire_equal(di, want[1], got[0])))
                if dropped and any(x and x[0] == 'exc' for x in rec['pair']):
                    continue
                if not ok:
                    res.append(Violation('C12.value-changed-on-the-way', f'{tag}|concurrent-writes',
                                         f'two threads wrote {want} to {op["m"]}:{op["p"]} at the same time, the driver '
                                         f'received {got}; results {rec["pair"]}'))
                    continue
                for v, r2 in zip(want, rec['pair']):
                    if r2 is None or r2[0] != 'ok' or not dtgen.wire_equal(di, v, r2[1]):
                        res.append(Violation('C12.readback-mismatch', f'{tag}|concurrent-writes|{di["type"]}',
                                             f'setParameter({op["m"]}, {op["p"]}, {v!r}) in one of two concurrent writers '
                                             f'returned {r2!r} (the driver returns what it is given)'))
                        break
            elif op['op'] == 'get':
                p = di_of[op['m'], op['p']]
                di = p['di']
                if not p.get('read') or shape['mode'] == 'proxy':
                    continue     # a proxy answers reads from its cache of updates (by design)
                if rec['cache'][0] != 'ok' or not dtgen.wire_equal(di, op['v'], rec['cache'][1]):
                    res.append(Violation('C12.readback-mismatch', f'{tag}|get|{di["type"]}',
                                         f'getParameter({op["m"]}, {op["p"]}): driver returned {op["v"]!r}, client '
                                         f'cache holds {rec["cache"]!r} (datainfo {di})'))
            elif op['op'] == 'exec':
                c = cmd_of[op['m'], op['c']]
                calls = [x for x in rec['calls'] if x['kind'] == 'cmd' and x['name'] == op['c']]
                if len(calls) != 1:
                    res.append(Violation('C12.driver-calls', f'{tag}|exec', f'{op}: driver command calls {calls}'))
                    continue
                if c.get('arg') and c['arg']['type'] != 'struct' and not dtgen.wire_equal(c['arg'], op['v'], calls[0]['arg']):
                    res.append(Violation('C12.value-changed-on-the-way', f'{tag}|cmd|{c["arg"]["type"]}',
                                         f'execCommand({op["m"]}, {op["c"]}, {op["v"]!r}): driver got {calls[0]["arg"]!r}'))
                if c.get('result') and not dtgen.wire_equal(c['result'], c['result_value'], rec.get('result')):
                    res.append(Violation('C12.readback-mismatch', f'{tag}|cmd-result|{c["result"]["type"]}',
                                         f'execCommand({op["m"]}, {op["c"]}): driver returned {c["result_value"]!r}, '
                                         f'client got {rec.get("result")!r}'))
        return res


CHECK = C12()
