"""C06 -- the node's self-description is true of its behaviour

A describing client party talks to a real node over the wire: it takes the
`describing` reply, builds (i) the independent reference validators of
sim.dtgen and (ii) frappy's own client datatypes from it, then reads, changes
(boundary payloads), executes commands and activates -- also at names that
exist inside the node but are *not* described -- and repeats `describe` while
poll threads and a second client run.  Nodes come from generated module
classes (full feature mix, constants of every datatype) and from the shipped
hardware-free configurations (cfg/*_cfg.py), whose threads, sleeps and random
numbers run behind the seams.
"""
import json
import os
import random as _random
import threading
import time
from pathlib import Path

from sim import dtgen, env, genmod, nodeworld, wire
from sim.harness import Check, Violation

from frappy.datatypes import get_datatype, StringType
from frappy.io import HasIO
from frappy.lib import generalConfig
from frappy.modules import Communicator, Readable
from frappy.properties import Property
from frappy.server import Server


class AutoIO(Communicator):
    """a communicator without hardware"""
    uri = Property('where to connect to', StringType(), default='')

    def communicate(self, command):
        """send a command, return the reply"""
        return 'reply to ' + command


class WithIO(HasIO, Readable):
    """configured with an uri: the node creates the communicator <name>_io by itself"""
    ioClass = AutoIO

    def read_value(self):
        return float(len(self.communicate('T?')))


# the shipped configurations that start without hardware in this snapshot (the other sim_mlz_* files are
# rejected by the node itself with configuration errors; multiplexer/ppms_proxy need a second node)
SHIPPED = ['demo', 'sim', 'cryo', 'test', 'sim_mlz_htf02', 'sim_mlz_cci3he1', 'ls370sim']
PREDEF = ('value', 'status', 'target', 'pollinterval', 'ramp', 'use_ramp', 'setpoint', 'time_to_target', 'controlled_by',
          'control_active', 'unit', 'loglevel', 'mode', 'ctrlpars', 'stop', 'reset', 'go', 'abort', 'shutdown',
          'communicate')


def _bad_reading(rng, di):
    """a python value which the datatype refuses to convert but which could be serialised (None: no such value)"""
    t = di.get('type')
    if t == 'string':
        if 'maxchars' in di and di['maxchars'] < 200:
            return 'x' * (di['maxchars'] + 1 + rng.randrange(4))
        return 'caf\xe9' if not di.get('isUTF8') else 'nul\0inside'
    if t in ('tuple', 'struct', 'array'):
        try:
            good = dtgen.to_internal(di, dtgen.valid_wire(rng, di, full=True))
        except Exception:   # noqa
            return None
        if t == 'struct':
            for k, mdi in di['members'].items():
                b = _bad_reading(rng, mdi)
                if b is not None:
                    return dict(good, **{k: b})
        elif t == 'tuple':
            for i, mdi in enumerate(di['members']):
                b = _bad_reading(rng, mdi)
                if b is not None:
                    return tuple(good[:i]) + (b,) + tuple(good[i + 1:])
        elif good:
            b = _bad_reading(rng, di['members'])
            if b is not None:
                return (b,) + tuple(good[1:])
    return None


class C06(Check):
    ID = 'C06'
    TRACE_FILES = ('secnode.py', 'protocol/dispatcher.py')
    TIERS = {'quick': {'runs': 5000, 'wall': 80}, 'thorough': {'runs': 150000, 'wall': 800}}
    RUN_WALL = 120
    MAX_VIRTUAL = 600
    RULE = ('[a third of the generated nodes have a module configured with an uri (automatic communicator); a fifth of the sections state interface_classes / features / implementation of another class] ' 'case = node from generated module classes (1..3 modules, all datatypes, readonly/constant/export flags, '
            'commands, unexported modules) or one of the shipped hardware-free configurations + a probing plan (reads, '
            'changes with boundary payloads, commands, activations, also at undescribed names; repeated describe; driver '
            'glitch assignments of readings the datatype refuses, each followed by a read) + an '
            'optional second client; distinct = different (case digest, schedule digest); non-trivial = >= 1 described '
            'parameter was probed with >= 1 payload the reference validator rejects and >= 1 it accepts')
    REAL = ['frappy.secnode.SecNode.get_descriptive_data / export_accessibles', 'frappy.params export (for_export, '
            'exportProperties, fixExport)', 'frappy.protocol.dispatcher (all handlers)', 'frappy.datatypes '
            '(export_datatype, import/validate/export_value)', 'shipped mode: frappy.server.Server constructor, config files '
            'from /repo/cfg, frappy_demo / frappy.simulation / frappy_mlz module classes with their own threads']
    STUB = ['hardware (fake driver in generated mode; the simulation classes of the repo in shipped mode)', 'TCP (sim.net)',
            'clock, random (seeded)']
    ASSUMPTIONS = ['DONTCARE payloads (documented leniencies) are not judged',
                   'in shipped mode a refused valid payload is not judged (module logic may veto); an accepted invalid '
                   'payload, a non-importable emitted value and flag / constant mismatches are',
                   'the clause "interface class and features match the implementing class" is a pure '
                   'configuration->string mapping; it is checked in generated mode as a rider']
    PROBES = ('c06.generated-mode', 'c06.automatic-properties-configured', 'c06.automatic-communicator', 'c06.shipped-mode', 'c06.must-reject', 'c06.must-accept', 'c06.constant',
              'c06.undescribed-probed', 'c06.describe-repeated', 'c06.emitted-values-checked', 'c06.unexported-module',
              'c06.export-configured', 'c06.limits-set-at-start',
              'c06.driver-glitch', 'c06.features-compared')

    def gen_case(self, rng, tier):
        mode = 'generated' if rng.random() < 0.7 else 'shipped'
        shape = {'p_switch': rng.choice([0.1, 0.3]), 'line_gaps': rng.choice([0, 0, 10]),
                 'seg_bias': rng.choice([1.0, 0.7]), 'lat_bias': rng.choice([1.0, 0.7]), 'mode': mode,
                 'second_client': rng.random() < 0.4, 'probe_seed': rng.randrange(1 << 30),
                 'nprobe': rng.randrange(8, 40 if tier == 'thorough' else 25)}
        if mode == 'generated':
            specs = [genmod.gen_module_spec(rng, f'm{i}', depth=rng.choice([1, 2, 2]), full=True, constants='all',
                                            constants_read=True)
                     for i in range(rng.choice([1, 2, 3]))]
            for s in specs:
                s['enablePoll'] = rng.random() < 0.6
                s['pollinterval'] = rng.choice([0.2, 1.0])
                for p in s['params']:
                    p['limits'] = None
                    p['veto'] = None
            if len(specs) > 1 and rng.random() < 0.3:
                specs[-1]['export'] = False
            # limits learnt from the hardware when the module is started: the description must follow
            for s in specs:
                # (a parameter without hardware read: its values only come from accepted changes; the value it holds
                # at the start stays inside the new limits - readings outside the range are emitted as they are, by design)
                cands = [p for p in s['params'] if p['di']['type'] == 'double' and p.get('constant') is None
                         and not p.get('read') and p.get('default') is not None and p['name'] not in PREDEF
                         and 'min' in p['di'] and 'max' in p['di'] and p['di']['max'] - p['di']['min'] > 1e-3
                         and p['di']['max'] < 1e300 and p['di']['min'] > -1e300]
                if cands and rng.random() < 0.4:
                    p = rng.choice(cands)
                    lo, hi, v = p['di']['min'], p['di']['max'], p['default']
                    s['late_limits'] = {'p': p['name'], 'min': lo + (v - lo) * 0.5, 'max': hi - (hi - v) * 0.5}
            # the export property of single parameters given in the configuration (e.g. a section copied from
            # another module): it renames, hides or shows the parameter - but never inside a module not exported
            for s in specs:
                for i, p in enumerate(s['params']):
                    if p['name'] not in PREDEF and p.get('constant') is None and rng.random() < (0.5 if not s.get('export', True) else 0.1):
                        p['cfg_export'] = rng.choice([True, True, f'_cfg{i}', False])
            # features, and modules whose implementing class is derived from the class of another module
            for s in specs:
                if rng.random() < 0.25:
                    s['features'] = rng.choice([['HasGenA'], ['HasGenB'], ['HasGenB', 'HasGenA']])
            if rng.random() < 0.4:
                import copy
                s0 = rng.choice(specs)
                d = copy.deepcopy(s0)
                d['name'] = 'd' + s0['name']
                d['derive'] = s0['name']
                d['export'] = True
                d['features'] = [f for f in rng.choice([[], ['HasGenA'], ['HasGenB'], ['HasGenA', 'HasGenB']])
                                 if f not in s0.get('features', ())]
                # inherited feature mixins stay in the class chain of the derived class
                d['all_features'] = d['features'] + list(s0.get('features', ()))
                specs.insert(specs.index(s0) + 1, d)
            shape['specs'] = specs
            # a section copied from somewhere else, which states the automatic properties (of another class)
            shape['auto_props'] = {}
            for sp_ in specs:
                if rng.random() < 0.2:
                    shape['auto_props'][sp_['name']] = rng.choice([
                        {'interface_classes': ['Drivable']}, {'interface_classes': []}, {'features': ['HasOffset']},
                        {'features': []}, {'implementation': 'frappy_demo.cryo.Cryostat'},
                        {'interface_classes': ['Readable'], 'features': ['HasGenA'], 'implementation': 'x.Y'}])
            # a module configured with an uri (first or last section of the configuration)
            shape['auto_io'] = rng.choice([None, None, 'first', 'last'])
        else:
            shape['cfg'] = rng.choice(SHIPPED)
            shape['random_seed'] = rng.randrange(1 << 30)
        return {'shape': shape, 'ops': []}

    # ------------------------------------------------------------------ run
    def main(self, sim, case, ctx):
        shape = case['shape']
        world = ctx['world'] = env.World(sim, shape['seg_bias'], shape['lat_bias'])
        ctx['cleanup'] = []
        if shape['mode'] == 'generated':
            sim.count('c06.generated-mode')
            drv = genmod.Driver(sim)
            node = nodeworld.Node(world, 'n', shape['specs'], drv, start=False)
            ctx['cleanup'].append(node.forget)
            for mname_, props_ in (shape.get('auto_props') or {}).items():
                if mname_ in node.srv.module_cfg:
                    sim.count('c06.automatic-properties-configured')
                    node.srv.module_cfg[mname_].update(props_)
            if shape.get('auto_io'):
                sim.count('c06.automatic-communicator')
                HasIO.ioDict.clear()
                ctx['cleanup'] += [HasIO.ioDict.clear, lambda: env.forget_classes(AutoIO, WithIO)]
                sect = {'hio': {'cls': WithIO, 'description': 'module with an automatic communicator',
                                'uri': 'tcp://simhost:999'}}
                cfg = dict(node.srv.module_cfg)
                node.srv.module_cfg = node.cfg = dict(sect, **cfg) if shape['auto_io'] == 'first' else dict(cfg, **sect)
            node.start()
            srv = node.srv
        else:
            sim.count('c06.shipped-mode')
            old_conf = generalConfig._config.get('confdir')
            generalConfig._config['confdir'] = [Path(env.REPO) / 'cfg']
            ctx['cleanup'].append(lambda: generalConfig._config.__setitem__('confdir', old_conf))
            try:
                srv = Server(shape['cfg'], world.rootlog, interface='tcp://10767')
                world.servers.append(srv)
                srv._processCfg()
            except SystemExit as e:
                ctx['start_failed'] = f'SystemExit({e.code})'
                return
            except Exception as e:   # noqa
                ctx['start_failed'] = repr(e)[:300]
                return
            world.serve(srv)
        secnode = srv.secnode
        cl = nodeworld.RawClient(world)
        ctx['client'] = cl
        r = cl.request('describe', timeout=120)
        ctx['desc_line'] = None if r is None else r[2]
        desc = r[2].data if r and r[2].json_ok else None
        ctx['desc'] = desc
        if not isinstance(desc, dict):
            return
        # what exists inside the node but is not described
        if any(p.get('cfg_export') is not None for s in shape.get('specs', ()) for p in s['params']):
            sim.count('c06.export-configured')
        if any(s.get('late_limits') for s in shape.get('specs', ())):
            sim.count('c06.limits-set-at-start')
        hidden = ctx['hidden'] = []
        ctx['not_listed'] = []
        for mname, mobj in secnode.modules.items():
            if mname not in desc['modules']:
                hidden.append(('module', mname, None))
                if mobj.export:
                    # a module object which is to be exported (also one the node created by itself, like the
                    # communicator of a module configured with an uri)
                    ctx['not_listed'].append(mname)
                continue
            for aname, aobj in mobj.accessibles.items():
                if not aobj.export:
                    hidden.append(('accessible', mname, aname))
                elif aobj.export != aname:
                    hidden.append(('internal-name', mname, aname))
        rng = _random.Random(shape['probe_seed'])
        probes = ctx['probes'] = []
        described = [(m, a, d) for m, md in desc['modules'].items() for a, d in md['accessibles'].items()]
        stop = [False]

        def second():
            c2 = nodeworld.RawClient(world)
            c2.request('activate', timeout=120)
            while not stop[0]:
                c2.request('ping x', timeout=60)
                time.sleep(0.3)
            ctx['second_lines'] = [ln for _s, _t, ln in c2.lines]
            c2.close()
        th = None
        if shape['second_client']:
            th = threading.Thread(target=second, name='second')
            th.start()

        def ask(text, kind, **info):
            r = cl.request(text, timeout=120)
            rec = dict(info, kind=kind, text=text[:300], reply=None if r is None else r[2])
            probes.append(rec)
            return rec
        activated = False
        for i in range(shape['nprobe']):
            if not described:
                break
            x = rng.random()
            m, a, d = rng.choice(described)
            di = d['datainfo']
            if x < 0.25:
                ask(f'read {m}:{a}', 'read', m=m, a=a)
            elif x < 0.6 and di.get('type') != 'command' and not (
                    shape['mode'] == 'shipped' and a.strip('_') in ('interval', 'pollinterval')):
                # (a simulation interval of 0 turns the repo's simulation thread into a busy loop)
                payload = rng.choice(dtgen.boundary_payloads(rng, di, 3))
                current = None
                if di.get('type') == 'struct':
                    # a partial struct is merged into the current value: learn it first
                    rr = cl.request(f'read {m}:{a}', timeout=120)
                    if rr is not None and rr[2].action == 'reply' and isinstance(rr[2].data, list):
                        current = rr[2].data[0]
                ask(f'change {m}:{a} {json.dumps(payload)}', 'change', m=m, a=a, payload=payload, current=current)
            elif x < 0.68 and di.get('type') == 'command':
                if di.get('argument'):
                    payload = rng.choice(dtgen.boundary_payloads(rng, di['argument'], 3))
                    ask(f'do {m}:{a} {json.dumps(payload)}', 'do', m=m, a=a, payload=payload)
                else:
                    ask(f'do {m}:{a}', 'do', m=m, a=a, payload=None)
            elif x < 0.78:
                sim.count('c06.describe-repeated')
                ask('describe', 'describe')
            elif x < 0.84 and shape['mode'] == 'generated' and di.get('type') != 'command':
                # a glitch of the hardware: the driver assigns a reading which is no value of the datatype
                # (as a doPoll does with self.<param> = reading); the node must not hand it out afterwards
                bad = _bad_reading(rng, di)
                if bad is not None:
                    mobj = secnode.modules[m]
                    attr = mobj.accessiblename2attr.get(a)
                    if attr is not None and d.get('constant') is None:
                        sim.count('c06.driver-glitch')
                        try:
                            setattr(mobj, attr, bad)
                        except Exception:   # noqa
                            pass
                        ask(f'read {m}:{a}', 'read', m=m, a=a)
            elif x < 0.93 and hidden:
                sim.count('c06.undescribed-probed')
                hk, hm, ha = rng.choice(hidden)
                if hk == 'module':
                    sim.count('c06.unexported-module')
                    mobj = secnode.modules[hm]
                    anames = list(mobj.accessibles) or ['value']
                    ha = rng.choice(anames)
                    cfgnames = [p['cfg_export'] for s in shape.get('specs', ()) if s['name'] == hm for p in s['params']
                                if isinstance(p.get('cfg_export'), str)]
                    target = f'{hm}:{rng.choice([ha, "_" + ha, "value"] + cfgnames)}'
                else:
                    target = f'{hm}:{rng.choice([ha, "_" + ha] if hk == "accessible" else [ha])}'
                    if hk == 'internal-name' and ha in PREDEF:
                        continue
                act = rng.choice(['read', 'change', 'do', 'activate'])
                text = {'read': f'read {target}', 'change': f'change {target} 1', 'do': f'do {target}',
                        'activate': f'activate {target}'}[act]
                ask(text, 'hidden', act=act, target=target, hk=hk)
            else:
                if not activated:
                    ask('activate', 'activate')
                    activated = True
                else:
                    time.sleep(0.5)
        ask('describe', 'describe')
        stop[0] = True
        if th:
            th.join()
        cl.drain(quiet=1.0, maxtime=10)
        # implementation facts for the rider clause
        ctx['impl'] = {m: [b.__name__ for b in type(o).__mro__] for m, o in secnode.modules.items()}
        secnode.shutdown_modules()
        for t in sim.tasks:
            pass

    # ------------------------------------------------------------------ oracle
    def observation(self, sim, case, ctx):
        return [(p['text'], p['reply'].raw[:200] if p['reply'] else None) for p in ctx.get('probes', ())]

    def nontrivial(self, sim, case, ctx):
        c = sim.counters
        return c.get('c06.must-reject', 0) >= 1 and c.get('c06.must-accept', 0) >= 1

    def judge(self, sim, case, ctx):
        res = []
        shape = case['shape']
        cnt = sim.counters

        def bump(k, n=1):
            cnt[k] = cnt.get(k, 0) + n
        tag = shape['mode'] if shape['mode'] == 'generated' else f'shipped:{shape["cfg"]}'
        if 'start_failed' in ctx:
            return [Violation('C06.node-did-not-start', tag, ctx['start_failed'])]
        dl = ctx.get('desc_line')
        if dl is None or not dl.utf8 or not dl.json_ok or not isinstance(ctx['desc'], dict):
            return [Violation('C06.desc-not-strict-json', tag, f'{dl!r}: {getattr(dl, "problem", None)}')]
        desc = ctx['desc']
        dtypes = {}
        for m, md in desc['modules'].items():
            for a, d in md['accessibles'].items():
                try:
                    dtypes[m, a] = get_datatype(d['datainfo'], a)
                except Exception as e:   # noqa
                    res.append(Violation('C06.datainfo-not-rebuildable', d['datainfo'].get('type', '?'),
                                         f'{tag} {m}:{a}: client can not build a datatype from {d["datainfo"]}: {e!r}'))
                    return res
                if 'description' not in d or 'datainfo' not in d:
                    res.append(Violation('C06.desc-incomplete', 'accessible', f'{m}:{a}: {list(d)}'))

        def check_emitted(m, a, value, where):
            d = desc['modules'].get(m, {}).get('accessibles', {}).get(a)
            if d is None:
                res.append(Violation('C06.emitted-for-undescribed', where, f'{tag}: {where} for undescribed {m}:{a}'))
                return
            di = d['datainfo']
            if di.get('type') == 'command':
                return
            bump('c06.emitted-values-checked')
            v, info = dtgen.classify(di, value)
            ok2 = True
            err = None
            try:
                dtypes[m, a].import_value(value)
            except Exception as e:   # noqa
                ok2 = False
                err = repr(e)
            if v == dtgen.REJECT or not ok2:
                res.append(Violation('C06.emitted-value-not-importable', f'{di.get("type")}|{where}',
                                     f'{tag} {m}:{a}: the node emitted {value!r} ({where}); described datainfo {di} '
                                     f'(reference validator: {v} {info}; frappy client datatype: {err})'))
        first_desc = json.dumps(desc, sort_keys=True)
        for p in ctx['probes']:
            rep = p['reply']
            if rep is None:
                res.append(Violation('C06.no-reply', p['kind'], f'{tag}: {p["text"]} got no reply'))
                return res
            if not rep.utf8 or not rep.json_ok:
                res.append(Violation('C06.reply-not-strict-json', p['kind'], f'{tag}: {p["text"]} -> {rep!r}'))
                continue
            kind = p['kind']
            is_err = rep.action.startswith('error_')
            errcls = rep.data[0] if is_err and wire.is_error_report(rep.data) else None
            if kind == 'describe':
                if is_err or json.dumps(rep.data, sort_keys=True) != first_desc:
                    a_, b_ = first_desc, json.dumps(rep.data, sort_keys=True) if not is_err else str(rep.raw[:200])
                    pos = next((i for i, (x, y) in enumerate(zip(a_, b_)) if x != y), min(len(a_), len(b_)))
                    res.append(Violation('C06.desc-unstable', tag.split(':')[0],
                                         f'{tag}: a later describe differs from the first at offset {pos}: '
                                         f'{a_[max(0, pos - 80):pos + 80]!r} vs {b_[max(0, pos - 80):pos + 80]!r}'))
                    return res
                continue
            if kind == 'hidden':
                if not is_err:
                    res.append(Violation('C06.undescribed-reachable', f'{p["act"]}|{p["hk"]}',
                                         f'{tag}: {p["text"]} (not in the description) answered {rep!r}'))
                continue
            if kind == 'activate':
                continue
            m, a = p['m'], p['a']
            d = desc['modules'][m]['accessibles'][a]
            di = d['datainfo']
            if kind == 'read':
                if di.get('type') == 'command':
                    continue
                if not is_err and isinstance(rep.data, list) and rep.data:
                    check_emitted(m, a, rep.data[0], 'read reply')
                    if d.get('constant') is not None:
                        bump('c06.constant')
                        if not dtgen.wire_equal(di, d['constant'], rep.data[0]):
                            res.append(Violation('C06.constant-mismatch', di.get('type'),
                                                 f'{tag} {m}:{a}: described constant {d["constant"]!r}, read gives {rep.data[0]!r}'))
                        cv, _ = dtgen.classify(di, d['constant'])
                        if cv == dtgen.REJECT:
                            res.append(Violation('C06.constant-not-in-datainfo', di.get('type'),
                                                 f'{tag} {m}:{a}: described constant {d["constant"]!r} is not a value of {di}'))
                continue
            if kind == 'change':
                ro = bool(d.get('readonly')) or d.get('constant') is not None
                if ro:
                    if not is_err or errcls != 'ReadOnly':
                        res.append(Violation('C06.flag-mismatch', 'readonly-but-changeable' if not is_err else f'readonly|{errcls}',
                                             f'{tag} {m}:{a} is described read-only/constant; {p["text"]} -> {rep!r}'))
                    continue
                if errcls == 'ReadOnly':
                    res.append(Violation('C06.flag-mismatch', 'writable-but-readonly',
                                         f'{tag} {m}:{a} is described writable; {p["text"]} -> {rep!r}'))
                    continue
                v, info = dtgen.classify(di, p['payload'], previous=p.get('current'))
                if v == dtgen.REJECT:
                    bump('c06.must-reject')
                    if not is_err:
                        res.append(Violation('C06.accept-reject-mismatch', f'accepted|{di.get("type")}',
                                             f'{tag} {m}:{a}: {p["payload"]!r} is not a value of the described datainfo {di} '
                                             f'but the node answered {rep!r}'))
                    elif errcls == 'InternalError' and shape['mode'] == 'generated':
                        res.append(Violation('C06.accept-reject-mismatch', f'internal-error|{di.get("type")}',
                                             f'{tag} {m}:{a}: {p["payload"]!r}: {rep!r}'))
                elif v == dtgen.ACCEPT:
                    bump('c06.must-accept')
                    if is_err and shape['mode'] == 'generated' and errcls in ('WrongType', 'RangeError', 'InternalError', 'BadValue'):
                        res.append(Violation('C06.accept-reject-mismatch', f'refused|{di.get("type")}',
                                             f'{tag} {m}:{a}: {p["payload"]!r} is a value of the described datainfo {di} '
                                             f'but the node answered {rep!r}'))
                    if not is_err and isinstance(rep.data, list) and rep.data:
                        check_emitted(m, a, rep.data[0], 'changed reply')
            if kind == 'do':
                argdi = di.get('argument')
                if p['payload'] is not None and argdi is not None:
                    v, info = dtgen.classify(argdi, p['payload'])
                    if v == dtgen.REJECT and not is_err:
                        res.append(Violation('C06.accept-reject-mismatch', f'accepted|cmd:{argdi.get("type")}',
                                             f'{tag} {m}:{a}: argument {p["payload"]!r} is not a value of {argdi}; {rep!r}'))
        # every update the clients received is importable with the described datainfo
        lines = [ln for _s, _t, ln in ctx['client'].lines] + list(ctx.get('second_lines', ()))
        for ln in lines:
            if ln.action in ('update',) and ln.json_ok and ':' in (ln.spec or '') and isinstance(ln.data, list) and ln.data:
                m, a = ln.spec.split(':', 1)
                before = len(res)
                check_emitted(m, a, ln.data[0], 'update')
                if len(res) > before:
                    break
            elif ln.action in ('update', 'error_update') and not ln.json_ok:
                res.append(Violation('C06.reply-not-strict-json', 'update', f'{tag}: {ln!r}: {ln.problem}'))
                break
        for mname in ctx.get('not_listed', ()):
            res.append(Violation('C06.listed-but-missing', 'module-object',
                                 f'{tag}: module {mname} exists with export=True but the description does not list it'))
        # rider: interface class / features match the implementing class (generated mode)
        if shape['mode'] == 'generated':
            for s in shape['specs']:
                md = desc['modules'].get(s['name'])
                if md is None:
                    if s.get('export', True):
                        res.append(Violation('C06.listed-but-missing', 'module', f'{s["name"]} exported but not described'))
                    continue
                if not s.get('export', True):
                    res.append(Violation('C06.undescribed-reachable', 'described|module', f'{s["name"]} is not exported but described'))
                want = [] if s['base'] == 'Module' else [s['base']]
                if md.get('interface_classes') != want:
                    res.append(Violation('C06.interface-class', s['base'], f'{s["name"]}: described {md.get("interface_classes")}, '
                                                                           f'class chain {ctx["impl"].get(s["name"])}'))
                wantf = s.get('all_features', s.get('features', []))
                cnt['c06.features-compared'] = cnt.get('c06.features-compared', 0) + 1
                if list(md.get('features', [])) != list(wantf):
                    res.append(Violation('C06.features', 'derived' if s.get('derive') else 'plain',
                                         f'{s["name"]}: described features {md.get("features")}, the implementing class has '
                                         f'{wantf} (class chain {ctx["impl"].get(s["name"])})'))
                names = set(md['accessibles'])
                for p in s['params']:
                    exp = p['export'] if p.get('cfg_export') is None else p['cfg_export']
                    name = p['name'] if p['name'] in PREDEF else '_' + p['name']
                    if isinstance(exp, str):
                        name = exp
                    if exp is False and name in names:
                        res.append(Violation('C06.undescribed-reachable', 'described|param', f'{s["name"]}:{name} has export=False'))
                    if exp is not False and name not in names:
                        res.append(Violation('C06.listed-but-missing', 'param', f'{s["name"]}:{name} exported but not described'))
        seen = set()
        out = []
        for v in res:
            if v['sig'] not in seen:
                seen.add(v['sig'])
                out.append(v)
        return out


CHECK = C06()
