"""C16 -- communicator: atomic request/reply pairing, stale data discarded, self-healing

Real StringIO / BytesIO modules (with a HasIO user module and the shared poll
thread) over the real AsynTcp talk to a scripted device on the simulated
network.  2..4 caller tasks use communicate / writeline / multicomm while the
poller reads and reconnects.  The device echoes a unique token per command;
its output is chunked by the network, replies can be late (after the caller's
time-out), unsolicited garbage appears, the device falls silent, disconnects
before / inside / after a transaction and refuses reconnects.
"""
import heapq
import threading
import time

from sim import env, kernel
from sim.harness import Check, Violation

from frappy.core import BytesIO, HasIO, Parameter, Readable, StringIO, FloatRange
from frappy.errors import CommunicationFailedError

PORT = 2000


class Device:
    """scripted hardware device (line or fixed-length framing)"""

    def __init__(self, world, plan, mode):
        self.world = world
        self.sim = world.sim
        self.plan = plan
        self.mode = mode
        self.eol = (plan.get('eol') or '\n').encode()
        self.conns = []
        self.rx = []          # {'n', 'conn', 't', 'seq', 'cmd'}
        self.tx = []          # {'n', 't', 'seq', 'data', 'conn'}
        self.losses = []      # (t, conn, why)
        self.silent = False
        self.healing = False      # faults stopped: pending fault jobs are dropped
        self.n = 0
        self._js = 0
        self.listener = world.net.listen(PORT, self._accept)

    def _accept(self, sock, addr):
        conn = {'sock': sock, 'idx': len(self.conns), 'jobs': [], 'closed': False}
        self.conns.append(conn)
        threading.Thread(target=self._reader, args=(conn,), name=f'dev-r{conn["idx"]}').start()
        threading.Thread(target=self._writer, args=(conn,), name=f'dev-w{conn["idx"]}').start()

    def lose(self, conn, why):
        if not conn['closed']:
            conn['closed'] = True
            self.losses.append((self.sim.vnow(), conn['idx'], why))
            try:
                conn['sock'].close()
            except OSError:
                pass

    def schedule(self, conn, delay, data, n=None):
        self._js += 1
        heapq.heappush(conn['jobs'], (self.sim.now + delay, self._js, data, n))

    def schedule_reply(self, conn, delay, reply, n, gap=0):
        """a reply; in the variable-length protocol its header byte and its body leave the device separately"""
        if self.plan.get('varlen') and self.mode == 'bytes' and len(reply) > 1:
            self.schedule(conn, delay, reply[:1], n)
            self.schedule(conn, delay + gap, reply[1:])
        else:
            self.schedule(conn, delay, reply, n)

    def _writer(self, conn):
        sim = self.sim
        jobs = conn['jobs']
        while not conn['closed']:
            if not jobs:
                sim.wait_until(lambda: jobs or conn['closed'], None, what='dev idle')
                continue
            due = jobs[0][0]
            if due > sim.now:
                sim.wait_until(lambda: conn['closed'] or (jobs and jobs[0][0] < due), due - sim.now, what='dev due')
                continue
            _d, _s, data, n = heapq.heappop(jobs)
            if isinstance(data, tuple):
                if self.healing:
                    continue
                sim.count(f'fault.device-{data[0]}')
                if data[0] == 'close':
                    self.lose(conn, 'device-close')
                elif data[0] == 'silent':
                    self.silent = data[1]
                elif data[0] == 'refuse':
                    self.listener.refuse = data[1]
                continue
            try:
                conn['sock'].sendall(data)
                self.tx.append({'n': n, 't': sim.vnow(), 'seq': sim.next_seq(), 'data': data, 'conn': conn['idx']})
            except OSError:
                self.lose(conn, 'send-failed')

    def _reader(self, conn):
        buf = b''
        sock = conn['sock']
        sock.settimeout(None)
        while not conn['closed']:
            try:
                data = sock.recv(65536)
            except OSError:
                break
            if not data:
                break
            buf += data
            while True:
                if self.mode == 'string':
                    if self.eol not in buf:
                        break
                    cmd, buf = buf.split(self.eol, 1)
                else:
                    if len(buf) < 4:
                        break
                    cmd, buf = buf[:4], buf[4:]
                self._on_cmd(conn, cmd)
        self.lose(conn, 'client-closed')

    def _on_cmd(self, conn, cmd):
        sim = self.sim
        n = self.n
        self.n += 1
        self.rx.append({'n': n, 'conn': conn['idx'], 't': sim.vnow(), 'seq': sim.next_seq(), 'cmd': cmd})
        if self.silent:
            return
        if cmd[:1] in (b'w', b'W'):
            return       # write-only command: no reply
        script = self.plan.get('replies') or [{'kind': 'echo', 'delay': 0}]
        step = script[n % len(script)]
        reply = (b'ans:' + cmd + self.eol) if self.mode == 'string' else (b'A' + cmd[1:3] + b'!')
        kind = step.get('kind', 'echo')
        delay = step.get('delay', 0)
        gap = step.get('gap', 0)
        if kind == 'echo':
            self.schedule_reply(conn, delay, reply, n, gap)
        elif kind == 'garbage':
            # every unsolicited message is unique, so that a returned reply maps to one place in the byte stream
            self.njunk = getattr(self, 'njunk', 0) + 1
            junk = b'junk %d' % self.njunk + self.eol if self.mode == 'string' else b'J' + self.njunk.to_bytes(2, 'big') + b'K'
            if step.get('after', 0.3) == 0:
                self.schedule(conn, delay, reply + junk, n)     # same segment as the reply
            else:
                self.schedule_reply(conn, delay, reply, n, gap)
                self.schedule(conn, delay + gap + step['after'], junk)
        elif kind == 'fragment':
            # an incomplete message instead of the reply, then silence
            self.njunk = getattr(self, 'njunk', 0) + 1
            self.schedule(conn, delay, b'frag%d' % self.njunk if self.mode == 'string' else b'F' + bytes([self.njunk % 256]))
        elif kind == 'none':
            pass
        elif kind == 'close_before':
            self.schedule(conn, delay, ('close',))
        elif kind == 'close_mid':
            self.schedule(conn, delay, reply[:max(1, len(reply) // 2)], n)
            self.schedule(conn, delay, ('close',))
        elif kind == 'close_after':
            self.schedule_reply(conn, delay, reply, n, gap)
            self.schedule(conn, delay + gap + 0.001, ('close',))
        for f in step.get('faults', ()):
            self.schedule(conn, f.get('delay', 0), tuple(f['fault']))


def make_classes(mode, rec, uidgen, varlen=False):
    ioclass = StringIO if mode == 'string' else BytesIO
    rlen = 1 if varlen else 4

    class SimIO(ioclass):
        # the rate limiter's own clock: when a caller decided to try a reconnect (it may then have to wait for a
        # reconnect in progress in an other thread before its own connection attempt is made)
        @property
        def _last_connect_attempt(self):
            return self.__dict__.get('_lca', 0)

        @_last_connect_attempt.setter
        def _last_connect_attempt(self, value):
            self.__dict__['_lca'] = value
            rec.decisions.append((rec.sim.vnow(), threading.current_thread().name))

        # who drops which connection: the connection object is set by connectStart and cleared by closeConnection
        @property
        def _conn(self):
            return self.__dict__.get('_conn_obj')

        @_conn.setter
        def _conn(self, value):
            self.__dict__['_conn_obj'] = value
            me = threading.current_thread().name
            if value is None:
                rec.conn_events.append((rec.sim.vnow(), 'cleared', me, rec.close_begun.get(me)))
            else:
                rec.conn_events.append((rec.sim.vnow(), 'set', me, None))

        def closeConnection(self):
            me = threading.current_thread().name
            rec.close_begun[me] = rec.sim.vnow()
            try:
                super().closeConnection()
            finally:
                rec.close_begun.pop(me, None)

        if varlen and mode == 'bytes':
            def getFullReply(self, request, replyheader):
                # variable-length protocol: the header announces a body, which is read separately
                return replyheader + self.readBytes(3)

    class User(HasIO, Readable):
        ioClass = SimIO
        value = Parameter('v', FloatRange())

        def read_value(self):
            uid = uidgen()
            r = {'kind': 'poll', 'uid': uid, 't0': rec.sim.vnow(), 'task': threading.current_thread().name}
            rec.calls.append(r)
            try:
                if mode == 'string':
                    reply = self.communicate(f'p{uid}')
                    r['result'] = ('ok', [reply])
                else:
                    reply = self.io.communicate(b'P' + uid.to_bytes(2, 'big') + b'?', rlen)
                    r['result'] = ('ok', [reply])
            except Exception as e:   # noqa
                r['result'] = ('exc', type(e).__name__, str(e)[:200])
                r['t1'] = rec.sim.vnow()
                r['seq1'] = rec.sim.next_seq()
                raise
            r['t1'] = rec.sim.vnow()
            r['seq1'] = rec.sim.next_seq()
            return float(uid)
    return SimIO, User


class Recorder:
    def __init__(self, sim):
        self.sim = sim
        self.calls = []
        self.decisions = []
        self.conn_events = []      # (vtime, 'set'|'cleared', task, begin of the closeConnection call in progress)
        self.close_begun = {}


class C16(Check):
    ID = 'C16'
    TRACE_FILES = ('io.py', 'lib/asynconn.py')
    TIERS = {'quick': {'runs': 9000, 'wall': 80}, 'thorough': {'runs': 300000, 'wall': 800}}
    MAX_VIRTUAL = 4000
    RULE = ('[device faults incl. garbage in the segment of the reply and fragment-then-silence] ' 'case = line- or byte-oriented communicator + 2..4 caller tasks x <= 6 operations (communicate, writeline, '
            'multicomm with delays) + poller + device script (reply delays up to beyond the time-out, garbage, silence, '
            'close before/inside/after a reply, refused reconnects) + network chunking; distinct = different (case '
            'digest, schedule digest); non-trivial = >= 2 callers overlapped in time and >= 1 scheduling decision '
            'among >= 2 runnable tasks')
    REAL = ['frappy.io.StringIO / BytesIO / IOBase / HasIO (communicate, writeline, multicomm, check_connection, '
            'read_is_connected, reconnect callbacks)', 'frappy.lib.asynconn.AsynTcp/AsynConn (readline, readbytes, '
            'flush_recv, recv, send)', 'frappy.modulebase poll thread (reconnect on poll, trigger_polls)']
    STUB = ['hardware device (scripted)', 'TCP (sim.net)', 'clock']
    ASSUMPTIONS = ['only bytes that had reached the communicator\'s socket at or before the instant a command was sent '
                   'count as stale data; later arrivals cannot be told apart by any implementation',
                   'failure bound: wait_before x commands + timeout + 1 s receive granularity + 1 s',
                   'reconnect rate is judged on attempts made from caller tasks (communicate -> check_connection); the '
                   'poll thread attempts once per pollinterval by construction']
    PROBES = ('c16.write-after-idle-disconnect', 'c16.concurrent-callers', 'c16.multicomm', 'c16.late-reply', 'fault.device-close', 'fault.device-silent',
              'fault.device-refuse', 'c16.reconnect', 'c16.garbage', 'c16.bytes-mode', 'c16.string-mode',
              'c16.two-byte-eol', 'c16.variable-length-replies', 'c16.callback-communicates', 'c16.callback-raised')

    def gen_case(self, rng, tier):
        mode = rng.choice(['string', 'string', 'bytes'])
        ncallers = rng.choice([2, 3, 4])
        timeout = rng.choice([1.0, 2.0])
        ops = []
        for t in range(ncallers):
            for _ in range(rng.randrange(1, 7)):
                kind = rng.choice(['comm', 'comm', 'comm', 'write', 'multi'])
                op = {'task': t, 'kind': kind, 'dt': rng.choice([0, 0, 0.01, 0.3, 1.5, 4.0])}
                if kind == 'multi':
                    op['reqs'] = [[rng.random() < 0.8, rng.choice([0, 0, 0.05, 0.4])] for _ in range(rng.randrange(2, 5))]
                ops.append(op)
        rng.shuffle(ops)
        faulty = rng.random() < 0.55
        replies = []
        for _ in range(rng.randrange(1, 7)):
            kind = rng.choice(['echo', 'echo', 'echo', 'garbage', 'garbage']
                              + (['none', 'fragment', 'close_before', 'close_mid', 'close_after'] if faulty else []))
            step = {'kind': kind, 'delay': rng.choice([0, 0, 0.01, 0.2, 0.9] + ([timeout + 0.6, timeout + 1.7] if faulty else []))}
            if rng.random() < 0.5:
                step['gap'] = rng.choice([0.001, 0.02, 0.2])     # between header and body (variable-length protocol)
            if kind == 'garbage':
                step['after'] = rng.choice([0, 0, 0.05, 0.5, 2.0])
            if faulty and rng.random() < 0.15:
                step['faults'] = [{'delay': rng.choice([0, 0.5]),
                                   'fault': rng.choice([['silent', True], ['refuse', rng.randrange(1, 4)], ['close']])}]
            replies.append(step)
        faults = []
        if faulty:
            for _ in range(rng.randrange(0, 3)):
                faults.append({'t': round(rng.random() * 12, 3),
                               'fault': rng.choice([['close'], ['silent', True], ['silent', False], ['refuse', rng.randrange(1, 4)]])})
        shape = {'p_switch': rng.choice([0.1, 0.3, 0.6]), 'line_gaps': rng.choice([0, 0, 8, 13]),
                 'seg_bias': rng.choice([1.0, 0.6, 0.2]), 'lat_bias': rng.choice([1.0, 0.8, 0.5]),
                 'mode': mode, 'ncallers': ncallers, 'timeout': timeout, 'replies': replies,
                 'wait_before': rng.choice([0, 0, 0.05, 0.3]), 'reconnect_interval': rng.choice([3.0, 10.0]),
                 'user_poll': rng.choice([0.5, 2.0]), 'faulty': faulty, 'refuse_first': rng.random() < 0.1,
                 # a two-byte end of line can be cut in two by the segmentation of the network
                 'eol': rng.choice(['\n', '\n', '\r\n']),
                 # byte-oriented protocol with replies of variable length: getFullReply reads the body separately
                 'varlen': rng.random() < 0.5,
                 'cb_comm': rng.random() < 0.3, 'cb_raise': rng.random() < 0.5,
                 'slow_state_cb': rng.choice([None, None, 0.05, 0.3])}
        return {'shape': shape, 'ops': ops, 'faults': faults}

    def shrink_candidates(self, case):
        sh = case['shape']
        if sh['line_gaps']:
            yield dict(case, shape=dict(sh, line_gaps=0))
        if sh['seg_bias'] < 1 or sh['lat_bias'] < 1:
            yield dict(case, shape=dict(sh, seg_bias=1.0, lat_bias=1.0))
        if len(sh['replies']) > 1:
            yield dict(case, shape=dict(sh, replies=sh['replies'][:1]))
            yield dict(case, shape=dict(sh, replies=[{'kind': 'echo', 'delay': 0}]))
        if sh['wait_before']:
            yield dict(case, shape=dict(sh, wait_before=0))

    # ------------------------------------------------------------------ run
    def main(self, sim, case, ctx):
        shape = case['shape']
        mode = shape['mode']
        sim.count('c16.bytes-mode' if mode == 'bytes' else 'c16.string-mode')
        world = ctx['world'] = env.World(sim, shape['seg_bias'], shape['lat_bias'])
        dev = ctx['dev'] = Device(world, {'replies': shape['replies'], 'eol': shape.get('eol'),
                                          'varlen': shape.get('varlen')}, mode)
        if shape.get('eol') == '\r\n' and mode == 'string':
            sim.count('c16.two-byte-eol')
        if shape['refuse_first']:
            dev.listener.refuse = 1
        rec = ctx['rec'] = Recorder(sim)
        uid = [0]

        def uidgen():
            uid[0] += 1
            return uid[0]
        varlen = bool(shape.get('varlen')) and mode == 'bytes'
        rlen = 1 if varlen else 4
        if varlen:
            sim.count('c16.variable-length-replies')
        SimIO, User = make_classes(mode, rec, uidgen, varlen)
        ctx['cleanup'] = [lambda: env.forget_classes(SimIO, User), HasIO.ioDict.clear]
        HasIO.ioDict.clear()
        cfg = {
            'io': {'cls': SimIO, 'description': 'communicator', 'uri': f'tcp://simhost:{PORT}',
                   'timeout': {'value': shape['timeout']}, 'wait_before': {'value': shape['wait_before']},
                   'pollinterval': {'value': shape['reconnect_interval']}},
            'u': {'cls': User, 'description': 'user', 'io': 'io', 'pollinterval': {'value': shape['user_poll']}},
        }
        if mode == 'string' and shape.get('eol', '\n') != '\n':
            cfg['io']['end_of_line'] = shape['eol']
        srv = world.make_server('n', cfg)
        srv._processCfg()
        io = srv.secnode.modules['io']
        ctx['io'] = io
        cbcount = ctx['cbcount'] = []

        def on_reconnect():
            cbcount.append(sim.vnow())
            return True

        def init_device():
            if shape.get('cb_comm'):
                # a reconnect callback re-initialising the device: it talks to it (from the thread which reconnected)
                sim.count('c16.callback-communicates')
                r = {'kind': 'comm', 'task': f'callback:{threading.current_thread().name}', 't0': sim.vnow(), 'uid': uidgen()}
                rec.calls.append(r)
                try:
                    if mode == 'string':
                        r['result'] = ('ok', [io.communicate(f'c{r["uid"]}')])
                    else:
                        r['result'] = ('ok', [io.communicate(b'C' + r['uid'].to_bytes(2, 'big') + b'?', rlen)])
                except Exception as e:   # noqa
                    r['result'] = ('exc', type(e).__name__, str(e)[:200], isinstance(e, CommunicationFailedError))
                    r['connected_after'] = io.is_connected
                    r['t1'] = sim.vnow()
                    r['seq1'] = sim.next_seq()
                    if shape.get('cb_raise'):
                        # the device was not ready: the callback fails (frappy logs it and drops the callback); the
                        # callbacks registered after it must run all the same
                        sim.count('c16.callback-raised')
                        raise
                r['t1'] = sim.vnow()
                r['seq1'] = sim.next_seq()
            return True
        # (registered in this order: the failing one first)
        io.registerReconnectCallback('init', init_device)
        io.registerReconnectCallback('probe', on_reconnect)
        connhist = ctx['connhist'] = []
        def state_cb(*a):
            connhist.append((sim.vnow(), a[0], len(a) > 1))
            if shape.get('slow_state_cb'):
                # an application callback on the connection state which takes a moment (writes a log entry, ...)
                time.sleep(shape['slow_state_cb'])
        io.addCallback('is_connected', state_cb)
        t_start = sim.vnow()

        def caller(tid):
            for op in case['ops']:
                if op['task'] % shape['ncallers'] != tid:
                    continue
                if op['dt']:
                    time.sleep(op['dt'])
                r = {'kind': op['kind'], 'task': f'caller{tid}', 't0': sim.vnow()}
                rec.calls.append(r)
                try:
                    if op['kind'] == 'comm':
                        r['uid'] = uidgen()
                        if mode == 'string':
                            r['result'] = ('ok', [io.communicate(f'c{r["uid"]}')])
                        else:
                            r['result'] = ('ok', [io.communicate(b'C' + r['uid'].to_bytes(2, 'big') + b'?', rlen)])
                    elif op['kind'] == 'write':
                        r['uid'] = uidgen()
                        if mode == 'string':
                            io.writeline(f'w{r["uid"]}')
                        else:
                            io.communicate(b'W' + r['uid'].to_bytes(2, 'big') + b'!', 0)
                        r['result'] = ('ok', [])
                    else:
                        sim.count('c16.multicomm')
                        r['uids'] = [uidgen() for _ in op['reqs']]
                        r['reqs'] = op['reqs']
                        if mode == 'string':
                            reqs = [(f'{"c" if exp else "w"}{u}', exp, d) for u, (exp, d) in zip(r['uids'], op['reqs'])]
                            r['result'] = ('ok', list(io.multicomm(reqs)))
                        else:
                            reqs = [(b'C' + u.to_bytes(2, 'big') + b'?', rlen, d) for u, (_exp, d) in zip(r['uids'], op['reqs'])]
                            r['result'] = ('ok', list(io.multicomm(reqs)))
                except Exception as e:   # noqa
                    r['result'] = ('exc', type(e).__name__, str(e)[:200], isinstance(e, CommunicationFailedError))
                    r['connected_after'] = io.is_connected
                r['t1'] = sim.vnow()
                r['seq1'] = sim.next_seq()

        def faulter():
            for f in sorted(case.get('faults', ()), key=lambda f: f['t']):
                dt = t_start + f['t'] - sim.vnow()
                if dt > 0:
                    time.sleep(dt)
                live = [c for c in dev.conns if not c['closed']]
                if f['fault'][0] == 'refuse':
                    dev.listener.refuse = f['fault'][1]
                    sim.count('fault.device-refuse')
                elif f['fault'][0] == 'silent':
                    dev.silent = f['fault'][1]
                    sim.count('fault.device-silent')
                elif live:
                    dev.schedule(live[-1], 0, tuple(f['fault']))
        ths = [threading.Thread(target=caller, args=(i,), name=f'caller{i}') for i in range(shape['ncallers'])]
        ths.append(threading.Thread(target=faulter, name='faulter'))
        for t in ths:
            t.start()
        for t in ths:
            t.join()
        ctx['t_callers_done'] = sim.vnow()
        # let the node heal: the device becomes well-behaved
        dev.healing = True
        dev.silent = False
        dev.listener.refuse = 0
        dev.plan['replies'] = [{'kind': 'echo', 'delay': 0}]
        time.sleep(shape['reconnect_interval'] * 2 + 5)
        ctx['healed'] = io.is_connected
        ctx['stuck'] = bool(io.is_connected and io._conn is None)
        ctx['t_end'] = sim.vnow()
        # the client side endpoints of all connections (send times of commands)
        ctx['client_sent'] = [[(t, d) for (t, _q, d) in a.sent_log] for a, b in world.net.pairs]
        ctx['client_arrivals'] = [[(t, d) for (t, _q, d) in a.recv_log] for a, b in world.net.pairs]
        ctx['client_delivered'] = [[(t, d) for (t, _q, d) in a.deliver_log] for a, b in world.net.pairs]
        ctx['client_sent_seq'] = [[(q, d) for (_t, q, d) in a.sent_log] for a, b in world.net.pairs]
        ctx['client_read_seq'] = [[(q, d) for (_t, q, d) in a.recv_log] for a, b in world.net.pairs]
        ctx['connect_log'] = list(world.net.connect_log)
        srv.secnode.shutdown_modules()

    def deadlock_is_violation(self, sim, case, ctx):
        """the run cannot end because a call to the communicator never returns"""
        now = sim.vnow()
        forever = sim.failure[0] == 'deadlock'    # every task is blocked without a time-out
        stuck = [c for c in ctx['rec'].calls if c['kind'] != 'poll' and 'result' not in c and (forever or now - c['t0'] > 60)]
        if not stuck:
            return None
        c = stuck[0]
        waits = sim.failure[1] if sim.failure[0] == 'deadlock' else [(n, st, fr[-3:]) for n, st, fr in sim.failure[1]]
        return Violation('C16.caller-stuck', 'never-returns',
                         f'{sim.failure[0]}: {c["kind"]} of {c["task"]} started at t={c["t0"]:.3f} has not returned at '
                         f't={now:.3f}; tasks: {str(waits)[:1500]}')

    # ------------------------------------------------------------------ oracle
    def observation(self, sim, case, ctx):
        return [(c.get('uid'), c.get('result')) for c in ctx['rec'].calls], [r['cmd'] for r in ctx['dev'].rx]

    def nontrivial(self, sim, case, ctx):
        calls = [c for c in ctx['rec'].calls if 't1' in c]
        overlap = any(a['task'] != b['task'] and a['t0'] < b['t1'] and b['t0'] < a['t1']
                      for i, a in enumerate(calls) for b in calls[i + 1:])
        if overlap:
            sim.counters['c16.concurrent-callers'] = sim.counters.get('c16.concurrent-callers', 0) + 1
        return overlap and sim.nchoice2 >= 1

    def judge(self, sim, case, ctx):
        res = []
        shape = case['shape']
        mode = shape['mode']
        dev = ctx['dev']
        cnt = sim.counters

        def bump(k):
            cnt[k] = cnt.get(k, 0) + 1
        calls = ctx['rec'].calls
        if any('result' not in c for c in calls if c['kind'] != 'poll'):
            return []   # reported by deadlock_is_violation

        def token(reply):
            try:
                if mode == 'string':
                    if not reply.startswith('ans:'):
                        return ('garbled', reply)
                    body = reply[4:]
                    return int(body[1:]) if body[1:].isdigit() else ('garbled', reply)
                if len(reply) != 4 or reply[:1] != b'A' or reply[3:] != b'!':
                    return ('garbled', bytes(reply))
                return int.from_bytes(reply[1:3], 'big')
            except Exception:   # noqa
                return ('garbled', repr(reply))

        def cmd_uid(cmd):
            try:
                if mode == 'string':
                    return int(cmd[1:].decode())
                return int.from_bytes(cmd[1:3], 'big')
            except Exception:   # noqa
                return None
        rx_by_uid = {}
        for r in dev.rx:
            u = cmd_uid(r['cmd'])
            if u is not None:
                rx_by_uid.setdefault(u, r)
        tx_by_uid = {}
        for t in dev.tx:
            if t['n'] is not None:
                u = cmd_uid(dev.rx[t['n']]['cmd'])
                tx_by_uid.setdefault(u, t)
        # a command sent without waiting for a reply (writeline) long after the device had closed the idle line:
        # the call must fail with a communication error, not return as if the command had gone out
        oks_ = sorted(t for (t, port, o, _task) in ctx['connect_log'] if port == PORT and o == 'ok')
        for c in calls:
            if c.get('kind') != 'write' or 'result' not in c:
                continue
            before = [t for t in oks_ if t <= c['t0']]
            loss_by_idx = {i: (t, w) for (t, i, w) in dev.losses}
            if not before or any(i not in loss_by_idx for i in range(len(before))):
                continue        # some connection made before the call may still have been open
            last_loss, why = max(loss_by_idx[i] for i in range(len(before)))
            if c['t0'] - last_loss > 1.0 and not any(c['t0'] < t <= c['t1'] for t in oks_):
                bump('c16.write-after-idle-disconnect')
                if c['result'][0] != 'ok' or c.get('uid') in rx_by_uid:
                    continue
                res.append(Violation('C16.write-lost', f'after-idle-disconnect|{why}',
                                     f'{c["task"]} writeline uid {c["uid"]} at t={c["t0"]:.3f} returned without error, but the '
                                     f'device had dropped the connection at t={last_loss:.3f} ({why}) and never got the command'))
                break
        if len(dev.conns) > 1:
            bump('c16.reconnect')
        any_garbage = any(st['kind'] == 'garbage' for st in shape['replies'])
        if any_garbage:
            bump('c16.garbage')
        # time each command left the communicator (client side endpoint)
        sent_at = {}
        for conn_idx, lst in enumerate(ctx['client_sent']):
            for t, data in lst:
                for piece in ([x.rstrip(b'\r') for x in data.split(b'\n')] if mode == 'string'
                              else [data[i:i + 4] for i in range(0, len(data), 4)]):
                    u = cmd_uid(piece) if piece else None
                    if u is not None:
                        sent_at.setdefault(u, t)
        # arrival time of every reply byte sequence at the communicator's socket
        arrival = {}
        for conn_idx, lst in enumerate(ctx['client_arrivals']):
            buf = b''
            for t, data in lst:
                buf += data
                while True:
                    if mode == 'string':
                        if b'\n' not in buf:
                            break
                        line, buf = buf.split(b'\n', 1)
                        line = line.rstrip(b'\r')
                        if line.startswith(b'ans:'):
                            u = cmd_uid(line[4:])
                            if u is not None:
                                arrival.setdefault(u, t)
                    else:
                        if len(buf) < 4:
                            break
                        piece, buf = buf[:4], buf[4:]
                        if piece[:1] == b'A':
                            arrival.setdefault(int.from_bytes(piece[1:3], 'big'), t)
        if mode == 'bytes':
            # garbage of any length shifts the 4 byte frames: look for the reply at every offset and take its latest
            # arrival (a reply is called stale only if it cannot have arrived after the command was sent)
            arrival = {}
            for lst in ctx['client_arrivals']:
                stream = b''.join(d for _t, d in lst)
                times = [t for t, d in lst for _ in d]
                for u in sent_at:
                    pat = b'A' + u.to_bytes(2, 'big') + b'!'
                    pos = stream.find(pat)
                    while pos >= 0:
                        arrival[u] = max(arrival.get(u, 0.0), times[pos + 3])
                        pos = stream.find(pat, pos + 1)
        # byte level: per connection the stream as read from the socket, each byte with the event number of
        # the recv() which returned it, and the event number of the send of each command
        streams = []
        for lst in ctx['client_read_seq']:
            streams.append((b''.join(d for _q, d in lst), [q for q, d in lst for _ in d]))
        sent_seq = {}
        for conn_idx, lst in enumerate(ctx['client_sent_seq']):
            for q, data in lst:
                for piece in ([x.rstrip(b'\r') for x in data.split(b'\n')] if mode == 'string'
                              else [data[i:i + 4] for i in range(0, len(data), 4)]):
                    u = cmd_uid(piece) if piece else None
                    if u is not None:
                        sent_seq.setdefault(u, (conn_idx, q))

        dstreams = []
        for lst in ctx['client_delivered']:
            dstreams.append((b''.join(d for _t, d in lst), [t for t, d in lst for _ in d]))

        def arrived_before_send(u, rep):
            """(arrival time, send time) when every place of the stream <rep> may come from had arrived at the socket
            more than 1 ms before <u> was sent (flush and send follow each other without any delay)"""
            if u not in sent_seq or u not in sent_at:
                return None
            conn_idx, _q = sent_seq[u]
            try:
                raw = rep.encode('latin-1') + (shape.get('eol') or '\n').encode() if mode == 'string' else bytes(rep)
            except Exception:   # noqa
                return None
            if len(raw) < 3:
                return None
            data, times = dstreams[conn_idx]
            firsts = []
            pos = data.find(raw)
            while pos >= 0:
                firsts.append(times[pos + len(raw) - 1])
                pos = data.find(raw, pos + 1)
            if not firsts:
                return None
            return all(f < sent_at[u] - 0.001 for f in firsts) and (min(firsts), sent_at[u])

        def read_before_send(u, rep):
            """True when every place of the byte stream that <rep> may come from was read before <u> was sent"""
            if u not in sent_seq:
                return None
            conn_idx, q = sent_seq[u]
            try:
                raw = rep.encode('latin-1') + (shape.get('eol') or '\n').encode() if mode == 'string' else bytes(rep)
            except Exception:   # noqa
                return None
            if len(raw) < 3:
                return None
            data, seqs = streams[conn_idx]
            firsts = []
            pos = data.find(raw)
            while pos >= 0:
                firsts.append(seqs[pos])
                pos = data.find(raw, pos + 1)
            if not firsts:
                return None
            return all(f < q for f in firsts) and (min(firsts), q)
        for c in calls:
            if 'result' not in c:
                continue
            uids = c.get('uids') or ([c['uid']] if 'uid' in c else [])
            wait = c['t1'] - c['t0']
            if c['result'][0] == 'ok':
                replies = c['result'][1]
                if c['kind'] in ('comm', 'poll'):
                    exp = uids
                elif c['kind'] == 'multi':
                    exp = [u for u, (e, _d) in zip(uids, c['reqs']) if e or mode == 'bytes']
                else:
                    exp = []
                if len(replies) != len(exp):
                    res.append(Violation('C16.reply-count', c['kind'], f'{c["kind"]} {uids}: replies {replies}'))
                    continue
                for u, rep in zip(exp, replies):
                    tok = token(rep)
                    if tok == u:
                        continue
                    if not isinstance(tok, tuple) and tok not in rx_by_uid:
                        tok = ('garbled', rep)      # looks like a reply, but to a command nobody sent: misaligned bytes
                    early = arrived_before_send(u, rep)
                    if early:
                        res.append(Violation('C16.stale-returned', 'arrived-before-send',
                                             f'{c["task"]} command uid {u} (sent at t={early[1]:.4f}) got {rep!r}, which had '
                                             f'completely arrived at the socket at t={early[0]:.4f}, before the command was sent'))
                        continue
                    stale = read_before_send(u, rep)
                    if stale:
                        res.append(Violation('C16.stale-returned', 'bytes-read-before-send',
                                             f'{c["task"]} command uid {u} (sent at event {stale[1]}) got {rep!r}, which had been '
                                             f'read from the socket at event {stale[0]}, before the command was sent'))
                        continue
                    if isinstance(tok, tuple):
                        # garbage returned as a reply: stale only if it had arrived before the command was sent
                        # with late replies / garbage around, fragments legitimately end up as replies
                        any_late = any(u2 not in arrival or arrival[u2] - sent_at[u2] > shape['timeout'] - 0.001
                                       for u2 in sent_at if u2 in rx_by_uid and rx_by_uid[u2]['cmd'][:1] not in (b'w', b'W'))
                        if not any_garbage and not shape['faulty'] and not any_late:
                            res.append(Violation('C16.framing', mode, f'{c["task"]} command uid {u} got {rep!r}'))
                        continue
                    ta = arrival.get(tok)
                    ts = sent_at.get(u)
                    if ta is not None and ts is not None and ta <= ts:
                        res.append(Violation('C16.stale-returned', c['kind'],
                                             f'{c["task"]} command uid {u} (sent at t={ts:.4f}) got the reply to uid {tok} '
                                             f'which had reached the socket at t={ta:.4f}, before the command was sent'))
                    elif ta is not None and ts is not None:
                        bump('c16.late-reply')   # arrived after the flush: no implementation can tell it apart
            else:
                etype = c['result'][1]
                # the call failed although the complete reply to its command was read from the socket while it ran
                if c['kind'] in ('comm', 'poll') and len(uids) == 1 and uids[0] in sent_seq and 'seq1' in c:
                    u = uids[0]
                    conn_idx, q = sent_seq[u]
                    if mode == 'string':
                        raw = b'ans:' + (b'p' if c['kind'] == 'poll' else b'c') + str(u).encode() + (shape.get('eol') or '\n').encode()
                    else:
                        raw = b'A' + u.to_bytes(2, 'big') + b'!'
                    data, seqs = streams[conn_idx]
                    pos = data.find(raw)
                    if pos >= 0 and seqs[pos] > q and seqs[pos + len(raw) - 1] < c['seq1']:
                        # (bytes read before it which belong to no complete message would garble it: not judged then)
                        before = data[:pos]
                        clean = (before.endswith((shape.get('eol') or '\n').encode()) or not before) if mode == 'string' \
                            else len(before) % 4 == 0
                        if clean and not any_garbage:
                            res.append(Violation('C16.reply-lost', mode + ('|two-byte-eol' if shape.get('eol') == '\r\n' else ''),
                                                 f'{c["task"]} {c["kind"]} uid {u} raised {c["result"][1:3]} although its complete '
                                                 f'reply {raw!r} was read from the socket (events {seqs[pos]}..'
                                                 f'{seqs[pos + len(raw) - 1]}) between the send (event {q}) and the end of the '
                                                 f'call (event {c["seq1"]})'))
                if not c['result'][3] if len(c['result']) > 3 else etype not in ('SilentCommunicationFailedError',
                                                                                 'CommunicationFailedError'):
                    res.append(Violation('C16.not-a-communication-error', etype,
                                         f'{c["task"]} {c["kind"]} {uids}: raised {c["result"][1:3]}'))
                if c['kind'] != 'poll' and c.get('connected_after') and 'disconnected' in c['result'][2] \
                        and 'ConnectionClosed' not in c['result'][2]:
                    pass
            n = max(1, len(uids))
            bound = n * (shape['wait_before'] + shape['timeout'] + 1.0 + 0.7) + sum(d for _e, d in c.get('reqs', ())) + 1.5
            # a caller may have to queue behind other callers holding the communicator lock
            others = [o for o in calls if o is not c and 't1' in o and o['t0'] < c['t1'] and c['t0'] < o['t1']]
            for o in others:
                m = max(1, len(o.get('uids') or [1]))
                bound += m * (shape['wait_before'] + shape['timeout'] + 1.0 + 0.7) + sum(d for _e, d in o.get('reqs', ()))
            bound += 1.0 + 0.7 + 1.0    # one connection attempt inside check_connection
            if wait > bound and c['kind'] != 'poll':
                res.append(Violation('C16.overlong-call', c['result'][0],
                                     f'{c["task"]} {c["kind"]} {uids} took {wait:.3f} s (bound {bound:.2f}) -> {c["result"][:3]}'))
        # the communicator lock: a command is sent only after the previous call has returned
        windows = []
        for c in calls:
            if 't1' not in c:
                continue
            us = [u for u in (c.get('uids') or [c.get('uid')]) if u in sent_at]
            if us:
                windows.append((min(sent_at[u] for u in us), c['t1'], c))
        windows.sort(key=lambda w: w[0])
        for (a0, a1, ca), (b0, b1, cb) in zip(windows, windows[1:]):
            if b0 < a1 - 1e-4 and ca is not cb:
                res.append(Violation('C16.lock-violated', f'{ca["kind"]}+{cb["kind"]}',
                                     f'{cb["task"]} {cb["kind"]} sent its command at t={b0:.4f} while {ca["task"]} {ca["kind"]} '
                                     f'(sent t={a0:.4f}) returned only at t={a1:.4f}'))
                break
        # multicomm transactions are never interleaved with other traffic
        for c in calls:
            if c['kind'] != 'multi' or 'result' not in c:
                continue
            got = [rx_by_uid[u] for u in c['uids'] if u in rx_by_uid]
            if len(got) >= 2 and len({g['conn'] for g in got}) == 1:
                lo, hi = got[0]['n'], got[-1]['n']
                foreign = [r for r in dev.rx if lo < r['n'] < hi and cmd_uid(r['cmd']) not in c['uids']]
                if foreign:
                    res.append(Violation('C16.interleaved-transaction', mode,
                                         f'{c["task"]} multicomm {c["uids"]}: the device received foreign command(s) '
                                         f'{[r["cmd"] for r in foreign][:3]} inside the transaction'))
            # delays between the commands of the transaction (measured where they leave the communicator)
            for (u1, (_e1, d1)), u2 in zip(zip(c['uids'], c['reqs']), c['uids'][1:]):
                if d1 and u1 in sent_at and u2 in sent_at and sent_at[u2] - sent_at[u1] < d1 - 1e-6:
                    res.append(Violation('C16.delay-not-honoured', mode,
                                         f'{c["task"]} multicomm: {d1} s requested after uid {u1}, but uid {u2} was sent '
                                         f'{sent_at[u2] - sent_at[u1]:.4f} s later'))
                    break
            # ... and the delay requested after the last command: nobody else talks to the device before it is over
            # (a transaction that went through: the delays are slept inside the communicator lock)
            if c['result'][0] == 'ok' and c['reqs'] and c['reqs'][-1][1] and c['uids'][-1] in sent_at:
                ulast, dlast = c['uids'][-1], c['reqs'][-1][1]
                conn_last = rx_by_uid[ulast]['conn'] if ulast in rx_by_uid else None
                later = [(sent_at[v], v) for v in sent_at if v not in c['uids'] and sent_at[v] > sent_at[ulast]
                         and v in rx_by_uid and rx_by_uid[v]['conn'] == conn_last]
                if later and min(later)[0] - sent_at[ulast] < dlast - 1e-6:
                    tv, v = min(later)
                    res.append(Violation('C16.delay-not-honoured', mode + '|after-last',
                                         f'{c["task"]} multicomm {c["uids"]}: {dlast} s requested after the last command '
                                         f'(uid {ulast}, sent at t={sent_at[ulast]:.4f}), but the command uid {v} of another '
                                         f'caller left the communicator {tv - sent_at[ulast]:.4f} s later'))
        # reconnect attempts made from communicate() respect the reconnect interval.  An attempt is dated by the
        # moment it was decided (check_connection), as the connection itself may have to wait for a reconnect going on
        # in an other thread; every connection made from a caller task needs a decision of its own
        decisions = ctx['rec'].decisions
        for (a, ta), (b, tb) in zip(decisions, decisions[1:]):
            if b - a < shape['reconnect_interval'] - 1e-3:
                res.append(Violation('C16.reconnect-too-often', 'simultaneous' if b - a < 0.05 else 'interval-ignored',
                                     f'connection attempts from communicate() decided at t={a:.3f} ({ta}) and t={b:.3f} ({tb}): '
                                     f'{b - a:.3f} s apart, reconnect interval {shape["reconnect_interval"]} s'))
                break
        else:
            free = list(decisions)
            for (t, port, _o, task) in ctx['connect_log']:
                if port != PORT or not task.startswith('caller'):
                    continue
                mine = [d for d in free if d[1] == task and d[0] <= t + 1e-9]
                if not mine:
                    res.append(Violation('C16.reconnect-too-often', 'interval-ignored',
                                         f'connection attempt from communicate() of {task} at t={t:.3f} without consulting '
                                         f'the reconnect interval ({shape["reconnect_interval"]} s); attempts decided: {decisions[:6]}'))
                    break
                free.remove(mine[0])
        # every successful reconnect runs each registered callback exactly once
        oks = [(t, task) for (t, port, o, task) in ctx['connect_log'] if port == PORT and o == 'ok']
        all_attempts = [(t, o) for (t, port, o, _task) in ctx['connect_log'] if port == PORT]
        expected_cb = len(oks) - (1 if all_attempts and all_attempts[0][1] == 'ok' else 0)
        if len(ctx['cbcount']) != expected_cb:
            res.append(Violation('C16.reconnect-callbacks', 'more' if len(ctx['cbcount']) > expected_cb else 'less',
                                 f'{len(oks)} successful connects (first attempt: {all_attempts[:1]}), reconnect callback '
                                 f'ran {len(ctx["cbcount"])} times at {ctx["cbcount"][:5]}'))
        # after the faults stopped the communicator heals
        if ctx['stuck']:
            hist = ctx['connhist']
            raced = len(hist) >= 2 and hist[-1][1] is True and hist[-2][1] is False
            site = 'connected-flag-set-after-close' if raced else 'connected-flag-not-cleared'
            last_ok = max((t for (t, port, o, _task) in ctx['connect_log'] if port == PORT and o == 'ok'), default=None)
            if raced and last_ok is not None and last_ok >= hist[-2][0] - 1e-9:
                # the last connection was opened after the flag had gone False, i.e. by the reconnect which set it True
                # again - and it is gone: somebody closed a connection which was not his (not the stale True of a
                # read wrapper, where the connection is opened before the False)
                site = 'fresh-connection-closed'
                # by whom?  by a closeConnection() which had begun before that connection existed (it made the state
                # visible first and dropped the connection afterwards), or by a call of its own which begun later (a
                # caller whose failure belongs to the previous connection closes the one just made)
                evs = ctx['rec'].conn_events
                sets = [e for e in evs if e[1] == 'set']
                if sets:
                    t_set = sets[-1][0]
                    cl = next((e for e in evs if e[1] == 'cleared' and e[0] >= t_set - 1e-9), None)
                    if cl is not None and cl[3] is not None and cl[3] >= t_set - 1e-9:
                        site = 'fresh-connection-closed|by-a-later-failure'
            res.append(Violation('C16.not-healed', site,
                                 f'is_connected is True but there is no connection: every call fails with "disconnected" '
                                 f'and no reconnect is attempted any more; connect log {ctx["connect_log"][-3:]}'))
        elif not ctx['healed']:
            res.append(Violation('C16.not-healed', mode,
                                 f'{shape["reconnect_interval"] * 2 + 5} s after the device became well-behaved '
                                 f'is_connected is still False; connect log {ctx["connect_log"][-3:]}'))
        else:
            last_ok = oks[-1][0] if oks else None
            if last_ok is not None and len(oks) > 1 and not ctx['stuck']:
                polls = [c for c in calls if c['kind'] == 'poll' and c['t0'] > last_ok and c.get('result', ('',))[0] == 'ok']
                if not polls and not ctx['stuck'] and \
                        ctx['t_end'] - last_ok > shape['user_poll'] + shape['reconnect_interval'] + 3:
                    res.append(Violation('C16.polls-not-resumed', mode, f'no successful poll after the reconnect at t={last_ok:.3f}'))
        return res


CHECK = C16()
