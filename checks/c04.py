"""C04 -- no invalid, forbidden or out-of-limit request ever reaches the driver

A real node over generated module classes (parameters of all datatypes,
readonly/constant/export flags, limit parameters, check_ hooks, commands with
none/scalar/tuple/struct arguments) and a recording fake driver.  1..3 wire
clients send change/do requests whose payloads come from the boundary
catalogue of the *described* datainfo, aimed at existing, unexported,
misspelt and wrong-kind names, while one of them keeps moving the dynamic
limits and the poll threads run.  Oracle: the independent reference validator
of sim.dtgen on the described datainfo + the driver's call log.
"""
import json
import threading
import time

from sim import dtgen, env, genmod, nodeworld, wire
from sim.harness import Check, Violation

PREDEF = ('value', 'status', 'target', 'pollinterval')


def expname(pname):
    head = pname.rsplit('_', 1)[0] if pname.rsplit('_', 1)[-1] in ('min', 'max', 'limits') else None
    if pname in PREDEF or (head in PREDEF):
        return pname
    return '_' + pname


class C04(Check):
    ID = 'C04'
    TRACE_FILES = ('protocol/dispatcher.py', 'modulebase.py')
    TIERS = {'quick': {'runs': 9000, 'wall': 75}, 'thorough': {'runs': 300000, 'wall': 800}}
    RULE = ('case = 1..3 generated module classes (full feature mix) + <= 40 change/do requests from 1..3 clients with '
            'payloads from the boundary catalogue of the described datainfo (valid / wrong JSON kind / out of range / '
            'wrong length / unknown member / partial struct / null) aimed at exported, unexported, misspelt and '
            'wrong-kind names + limit-moving requests + (40 % of the cases) 2..8 limit moves by a driver-side thread; distinct = different (case digest, schedule digest); '
            'non-trivial = >= 1 request the reference validator must-reject and >= 1 it must-accept were sent and '
            'both got a reply')
    REAL = ['frappy.protocol.dispatcher (_setParameterValue, _execute_command, handle_change/do)',
            'frappy.modulebase write wrappers, check hooks, checkLimits', 'frappy.params.Command.do / Limit',
            'frappy.datatypes import_value/validate of every datatype', 'TCPRequestHandler error mapping',
            'Server._processCfg, SecNode, poll threads']
    STUB = ['hardware (recording fake driver)', 'TCP sockets (sim.net)', 'socketserver accept loop', 'clock']
    ASSUMPTIONS = ['three-valued reference validator (sim.dtgen.classify): DONTCARE covers frappy\'s documented '
                   'leniencies (bool for numbers, 0/1 for bool, enum names, integral floats for int, null for struct '
                   'members, values inside the resolution band, non-canonical base64 padding)',
                   'requests are attributed to driver calls by the handler task and the request/reply window']
    PROBES = ('c04.must-reject', 'c04.must-accept', 'c04.limit-reject', 'c04.veto-reject', 'c04.readonly',
              'c04.constant', 'c04.unexported', 'c04.partial-struct', 'c04.command', 'c04.cache-untouched-checked',
              'c04.read-request', 'c04.parameter-in-error-state',
              'c04.limit-moved-by-driver', 'c04.limits-checked-at-driver')

    def gen_case(self, rng, tier):
        specs = [genmod.gen_module_spec(rng, f'm{i}', depth=rng.choice([1, 2, 2]), full=True)
                 for i in range(rng.choice([1, 2, 3]))]
        if rng.random() < 0.2:
            specs[-1]['export'] = False
        poll = rng.random() < 0.6
        for s in specs:
            s['enablePoll'] = poll
            s['pollinterval'] = rng.choice([0.2, 1.0])
        for s in specs:
            for p in s['params']:
                if p['name'] in ('value', 'status', 'target', 'pollinterval') or p.get('constant') is not None:
                    continue
                r = rng.random()
                if p['readonly'] and r < 0.25:
                    p['write'] = True          # read-only for clients, with a write method for internal use
                elif not p['readonly'] and r < 0.1 and not p.get('limits'):
                    p['cfg_readonly'] = True   # changeable in the class, locked by the configuration
        nclients = rng.choice([1, 1, 2, 3])
        ops = []
        for i in range(rng.randrange(3, 41 if tier == 'thorough' else 25)):
            s = rng.choice(specs)
            r = rng.random()
            op = {'c': rng.randrange(nclients), 'm': s['name']}
            if r < 0.12 and any(p.get('limits') for p in s['params']):
                p = rng.choice([p for p in s['params'] if p.get('limits')])
                lim = p['limits']
                post = rng.choice({'minmax': ['min', 'max'], 'min': ['min'], 'max': ['max'], 'limits': ['limits']}[lim])
                op['kind'] = 'change'
                op['name'] = expname(f'{p["name"]}_{post}')
                v1, v2 = dtgen.valid_wire(rng, p['di']), dtgen.valid_wire(rng, p['di'])
                op['payload'] = [v1, v2] if post == 'limits' else v1
                op['limit'] = True
            elif r < 0.8 or not s['cmds']:
                p = rng.choice(s['params'])
                op['kind'] = 'change'
                op['name'] = self._name(rng, s, p['name'], p.get('export', True))
                op['payload'] = rng.choice(dtgen.boundary_payloads(rng, p['di'], 2))
            else:
                c = rng.choice(s['cmds'])
                op['kind'] = 'do'
                op['name'] = self._name(rng, s, c['name'], c.get('export', True))
                if c.get('arg'):
                    op['payload'] = rng.choice(dtgen.boundary_payloads(rng, c['arg'], 2))
                    if rng.random() < 0.1:
                        op['nodata'] = True
                elif rng.random() < 0.2:
                    op['payload'] = rng.choice([0, 'x', [1], None])
                else:
                    op['nodata'] = True
            if rng.random() < 0.04:
                op['m'] = rng.choice(['nomod', s['name'].upper(), ''])
            ops.append(op)
        scripts = {}
        for s in specs:
            for p in s['params']:
                if p.get('write') and rng.random() < 0.25:
                    scripts[f'{s["name"]}.write_{p["name"]}'] = [[0, 'ok'], [0, rng.choice(['none', 'secop', 'exc', 'ok'])]]
        structs = [(s, p) for s in specs for p in s['params']
                   if p['di']['type'] == 'struct' and p.get('write') and not p.get('readonly') and p.get('constant') is None
                   and p.get('export', True) is not False and len(p['di']['members']) > 1]
        if nclients > 1 and structs and rng.random() < 0.6:
            # several clients change different members of one struct parameter at the same time, the hardware is slow:
            # every partial value must be merged into the value current when the driver is called
            s, p = rng.choice(structs)
            scripts[f'{s["name"]}.write_{p["name"]}'] = [[rng.choice([0.01, 0.05, 0.2]), 'ok']]
            members = list(p['di']['members'])
            for op in ops:
                if rng.random() < 0.6:
                    full = dtgen.valid_wire(rng, p['di'], full=True)
                    keep = rng.sample(members, rng.randrange(1, len(members)))
                    op.update(kind='change', m=s['name'], name=self._name(rng, s, p['name'], p.get('export', True)),
                              payload={k: full[k] for k in keep})
                    op.pop('nodata', None)
                    op.pop('limit', None)
        if structs and rng.random() < 0.4:
            # a fault history: the reading of a struct parameter fails now and then (the parameter is then in an
            # error state), read requests and partial changes of it are mixed into the requests
            s, p = rng.choice(structs)
            if p.get('read'):
                scripts[f'{s["name"]}.read_{p["name"]}'] = [[0, rng.choice(['ok', 'secop', 'exc'])] for _ in range(6)] + [[0, 'secop']]
                members = list(p['di']['members'])
                for op in ops:
                    r = rng.random()
                    if r < 0.3:
                        for k in ('nodata', 'limit', 'payload'):
                            op.pop(k, None)
                        op.update(kind='read', m=s['name'], name=expname(p['name']) if p.get('export', True) is True else p['export'],
                                  nodata=True)
                    elif r < 0.6:
                        full = dtgen.valid_wire(rng, p['di'], full=True)
                        keep = rng.sample(members, rng.randrange(1, len(members)))
                        op.update(kind='change', m=s['name'], name=expname(p['name']) if p.get('export', True) is True else p['export'],
                                  payload={k: full[k] for k in keep})
                        op.pop('nodata', None)
                        op.pop('limit', None)
        shape = {'p_switch': rng.choice([0.1, 0.3]), 'line_gaps': rng.choice([0, 0, 0, 12]),
                 'seg_bias': rng.choice([1.0, 0.7]), 'lat_bias': rng.choice([1.0, 0.7]),
                 'specs': specs, 'scripts': scripts, 'nclients': nclients, 'poll': poll}
        # a driver side thread (e.g. a poller refreshing hardware resident limits) moves the dynamic limits through
        # the write methods of the limit parameters while the clients send their requests
        moves = []
        limited = [(s, p) for s in specs for p in s['params']
                   if p.get('limits') and p['di']['type'] in genmod.NUMERIC and not p.get('readonly') and p.get('write')]
        if limited and rng.random() < 0.4:
            s, p = rng.choice(limited)
            post = rng.choice({'minmax': ['min', 'max'], 'min': ['min'], 'max': ['max'], 'limits': ['limits']}[p['limits']])
            for _ in range(rng.randrange(2, 9)):
                v1, v2 = dtgen.valid_wire(rng, p['di']), dtgen.valid_wire(rng, p['di'])
                moves.append({'m': s['name'], 'p': p['name'], 'post': post, 'dt': rng.choice([0, 0, 0.001, 0.01]),
                              'payload': sorted([v1, v2]) if post == 'limits' else v1})
            # the clients aim at the parameter whose limits move
            for op in ops:
                if rng.random() < 0.5:
                    op.update(kind='change', m=s['name'], name=expname(p['name']), payload=dtgen.valid_wire(rng, p['di']))
                    op.pop('nodata', None)
                    op.pop('limit', None)
        return {'shape': shape, 'ops': ops, 'faults': moves}

    @staticmethod
    def _name(rng, spec, name, export):
        r = rng.random()
        good = export if isinstance(export, str) else expname(name)
        if r < 0.85:
            return good
        return rng.choice([name if good != name else '_' + name, good + 'x', good.upper(), 'value2', '', good[1:] or 'v'])

    def shrink_candidates(self, case):
        sh = case['shape']
        if sh['nclients'] > 1:
            yield dict(case, shape=dict(sh, nclients=1), ops=[dict(o, c=0) for o in case['ops']])
        if sh['line_gaps']:
            yield dict(case, shape=dict(sh, line_gaps=0))
        if sh['seg_bias'] < 1 or sh['lat_bias'] < 1:
            yield dict(case, shape=dict(sh, seg_bias=1.0, lat_bias=1.0))
        if sh['poll']:
            specs = [dict(s, enablePoll=False) for s in sh['specs']]
            yield dict(case, shape=dict(sh, poll=False, specs=specs))
        if sh['scripts']:
            yield dict(case, shape=dict(sh, scripts={}))

    # ------------------------------------------------------------------ run
    def main(self, sim, case, ctx):
        shape = case['shape']
        world = ctx['world'] = env.World(sim, shape['seg_bias'], shape['lat_bias'])
        drv = ctx['drv'] = genmod.Driver(sim, shape['scripts'])
        node = nodeworld.Node(world, 'n', shape['specs'], drv)
        ctx['cleanup'] = [node.forget]
        first = nodeworld.RawClient(world)
        r = first.request('describe', timeout=60)
        ctx['description'] = r[2].data if r else None
        first.close()
        reqs = ctx['requests'] = []
        ctx['moves'] = case.get('faults') or []
        strict = shape['nclients'] == 1 and not shape['poll'] and not ctx['moves']

        def client(cidx):
            cl = nodeworld.RawClient(world)
            task = f'conn{cl.hidx}'
            for op in case['ops']:
                if op['c'] % shape['nclients'] != cidx:
                    continue
                spec = f'{op["m"]}:{op["name"]}' if op['name'] != '' or True else op['m']
                text = f'{op["kind"]} {spec}'
                if not op.get('nodata'):
                    text += ' ' + json.dumps(op.get('payload'))
                rec = {'op': op, 'task': task, 'send_seq': sim.next_seq(), 'ncalls': len(drv.calls)}
                before = node.cache() if strict else None
                if strict and op['kind'] == 'change':
                    # the value a partial struct is merged into (also while the parameter is in an error state)
                    try:
                        mobj_ = node.srv.secnode.modules[op['m']]
                        pn_ = mobj_.accessiblename2attr.get(op['name'])
                        if pn_ in mobj_.parameters and (op['m'], pn_) in drv.di and drv.di[op['m'], pn_]['type'] == 'struct':
                            rec['value_before'] = dtgen.to_wire(drv.di[op['m'], pn_], mobj_.parameters[pn_].value)
                    except Exception:   # noqa
                        pass
                nlines = len(cl.lines)
                rep = cl.request(text, timeout=60)
                rec['reply_seq'] = sim.next_seq()
                rec['reply'] = None if rep is None else rep[2]
                if strict:
                    rec['cache_before'] = before
                    rec['cache_after'] = node.cache()
                    rec['async_lines'] = [ln.raw for _s, _t, ln in cl.lines[nlines:] if ln.is_async]
                reqs.append(rec)
                if rep is None:
                    break
            cl.close()
        def mover():
            for mv in case.get('faults') or ():
                if mv['dt']:
                    time.sleep(mv['dt'])
                else:
                    sim.yield_point()
                modobj = node.srv.secnode.modules.get(mv['m']) if hasattr(node, 'srv') else None
                if modobj is None:
                    continue
                pobj = modobj.parameters[f'{mv["p"]}_{mv["post"]}']
                try:
                    value = pobj.datatype.import_value(mv['payload'])
                    getattr(modobj, f'write_{mv["p"]}_{mv["post"]}')(value)
                    sim.count('c04.limit-moved-by-driver')
                except Exception:   # noqa   (e.g. an inverted pair)
                    pass
        ths = [threading.Thread(target=client, args=(i,), name=f'client{i}') for i in range(shape['nclients'])]
        if case.get('faults'):
            ths.append(threading.Thread(target=mover, name='mover'))
        for t in ths:
            t.start()
        for t in ths:
            t.join()
        node.shutdown()

    # ------------------------------------------------------------------ oracle
    def observation(self, sim, case, ctx):
        return [(r['op'], r['reply'].raw if r['reply'] else None) for r in ctx.get('requests', ())], \
            [(c['kind'], c['mod'], c['name'], c.get('arg')) for c in ctx['drv'].calls if c['kind'] != 'read']

    def nontrivial(self, sim, case, ctx):
        c = sim.counters
        return c.get('c04.must-reject', 0) >= 1 and c.get('c04.must-accept', 0) >= 1

    def judge(self, sim, case, ctx):
        res = []
        shape = case['shape']
        cnt = sim.counters

        def bump(k):
            cnt[k] = cnt.get(k, 0) + 1
        desc = ctx['description']
        if not isinstance(desc, dict):
            return [Violation('C04.no-description', 'describe', 'describe failed')]
        specs = {s['name']: s for s in shape['specs']}
        drv = ctx['drv']
        calls = [c for c in drv.calls if c['kind'] in ('write', 'cmd')]
        claimed = set()
        for rec in ctx['requests']:
            op = rec['op']
            rep = rec['reply']
            if rep is None:
                res.append(Violation('C04.no-reply', op['kind'], f'request {op} got no reply'))
                continue
            mine = [c for c in calls if c['task'] == rec['task'] and rec['send_seq'] < c['seq'] < rec['reply_seq']]
            for c in mine:
                claimed.add(c['seq'])
            kind = op['kind']
            if kind == 'read':
                bump('c04.read-request')      # (part of the history only: brings the parameter into / out of its error state)
                if rep.action == 'error_read':
                    bump('c04.parameter-in-error-state')
                continue
            is_err = rep.action == 'error_' + kind
            errcls = rep.data[0] if is_err and wire.is_error_report(rep.data) else None
            what = f'{kind} {op["m"]}:{op["name"]} {json.dumps(op.get("payload")) if not op.get("nodata") else ""}'
            # ---- resolve the target from the description and the generator's knowledge
            moddesc = desc['modules'].get(op['m'])
            spec = specs.get(op['m'])
            target = None        # (kind, spec entry, described entry)
            if spec is not None and spec.get('export', True) and moddesc is not None:
                adesc = moddesc['accessibles'].get(op['name'])
                if adesc is not None:
                    for p in spec['params']:
                        for post in ('', '_min', '_max', '_limits'):
                            exp = p['export'] if isinstance(p.get('export'), str) and not post else expname(p['name'] + post)
                            if exp == op['name'] and (not post or self._has_limit(p, post)):
                                target = ('limit' if post else 'param', p, adesc, post)
                    for c in spec['cmds']:
                        if c.get('export', True) and expname(c['name']) == op['name']:
                            target = ('cmd', c, adesc, '')
                    if target is None and op['name'] in ('status', 'pollinterval', 'stop', 'value', 'target'):
                        target = ('builtin', None, adesc, '')
            if moddesc is None or target is None and (moddesc is None or op['name'] not in moddesc['accessibles']):
                # not described: must be refused by name, must not reach the driver
                if spec is not None and any(p.get('export') is False and expname(p['name']) == op['name']
                                            for p in spec['params']):
                    bump('c04.unexported')
                if mine:
                    res.append(Violation('C04.forbidden-reached-driver', 'undescribed',
                                         f'{what}: not in the description, but the driver saw {mine[0]["kind"]} '
                                         f'{mine[0]["mod"]}.{mine[0]["name"]}({mine[0].get("arg")!r})'))
                if not is_err or errcls not in ('NoSuchModule', 'NoSuchParameter', 'NoSuchCommand', 'ProtocolError'):
                    res.append(Violation('C04.wrong-refusal', 'undescribed', f'{what}: answered {rep!r}'))
                continue
            tkind, tspec, adesc, post = target
            if tkind == 'builtin':
                continue
            di = adesc['datainfo']
            if (kind == 'change') != (di.get('type') != 'command'):
                # a command addressed by change or a parameter by do
                if mine:
                    res.append(Violation('C04.forbidden-reached-driver', 'wrong-kind', f'{what}: driver saw {mine[0]}'))
                if not is_err or errcls not in ('NoSuchParameter', 'NoSuchCommand'):
                    res.append(Violation('C04.wrong-refusal', 'wrong-kind', f'{what}: answered {rep!r}'))
                continue
            if kind == 'change':
                if adesc.get('constant') is not None or adesc.get('readonly'):
                    bump('c04.constant' if adesc.get('constant') is not None else 'c04.readonly')
                    if mine:
                        res.append(Violation('C04.forbidden-reached-driver', 'readonly',
                                             f'{what}: read-only/constant, but the driver saw {mine[0]}'))
                    if not is_err or errcls != 'ReadOnly':
                        res.append(Violation('C04.wrong-refusal', 'readonly', f'{what}: answered {rep!r}'))
                    continue
                current = mine[0].get('current') if mine else rec.get('value_before')
                if op.get('nodata'):
                    verdict, info = dtgen.REJECT, {'WrongType', 'ProtocolError', 'BadValue'}
                else:
                    verdict, info = dtgen.classify(di, op.get('payload'), previous=current, param=current is not None)
                    if verdict == dtgen.DONTCARE and di['type'] == 'struct' and current is None and not mine:
                        pass
            else:
                argdi = di.get('argument')
                if argdi is None:
                    if op.get('nodata') or op.get('payload') is None:
                        verdict, info = dtgen.ACCEPT, None
                    else:
                        verdict, info = dtgen.REJECT, {'WrongType'}
                elif op.get('nodata') or op.get('payload') is None:
                    verdict, info = dtgen.REJECT, {'WrongType'}
                else:
                    verdict, info = dtgen.classify(argdi, op.get('payload'))
                    if verdict == dtgen.ACCEPT and argdi['type'] == 'struct' and set(info) != set(argdi['members']):
                        verdict, info = dtgen.DONTCARE, None    # optional command arguments: defaults apply
                bump('c04.command')
            # ---- dynamic limits and check hooks (numeric parameters only)
            limit_ok = True
            if kind == 'change' and tkind == 'param' and verdict == dtgen.ACCEPT and di['type'] in genmod.NUMERIC:
                v = dtgen.to_internal(di, info)
                snap = self._limits_now(ctx, rec, tspec, op['m'])
                if snap == 'uncertain':
                    verdict, snap = dtgen.DONTCARE, None
                if snap is not None:
                    if 'limits' in snap:
                        lo, hi = snap['limits']
                        limit_ok = lo <= v <= hi
                    else:
                        lo, hi = snap.get('min', float('-inf')), snap.get('max', float('inf'))
                        limit_ok = lo <= hi and lo <= v <= hi
                    if not limit_ok:
                        bump('c04.limit-reject')
                if limit_ok and tspec.get('veto') is not None and v > dtgen.to_internal(di, tspec['veto']):
                    limit_ok = False
                    bump('c04.veto-reject')
            if kind == 'change' and tkind == 'param' and di['type'] == 'struct' and isinstance(op.get('payload'), dict) \
                    and set(op['payload']) != set(di['members']):
                bump('c04.partial-struct')
            # ---- judge
            if verdict == dtgen.REJECT or (verdict == dtgen.ACCEPT and not limit_ok):
                bump('c04.must-reject')
                allowed = set(info) if verdict == dtgen.REJECT else {'RangeError'}
                if mine:
                    c = mine[0]
                    res.append(Violation(
                        'C04.invalid-reached-driver', f'{di["type"] if kind == "change" else "cmd:" + (di.get("argument") or {}).get("type", "none")}',
                        f'{what}: the reference validator rejects this payload for the described datainfo {di} '
                        f'({sorted(allowed)}), but the driver saw {c["kind"]} {c["mod"]}.{c["name"]}({c.get("arg")!r})'))
                elif not is_err:
                    res.append(Violation('C04.invalid-accepted', di['type'] if kind == 'change' else 'cmd',
                                         f'{what}: must be rejected for {di} but was answered {rep!r}'))
                elif errcls not in allowed and errcls not in ('BadValue',):
                    res.append(Violation(
                        'C04.wrong-error-class', f'{errcls}|{di["type"] if kind == "change" else "cmd"}',
                        f'{what}: refused with {errcls} ({rep.data[1][:120]!r}); fitting classes {sorted(allowed)} '
                        f'for datainfo {di}'))
                if ctx['requests'] and 'cache_before' in rec:
                    bump('c04.cache-untouched-checked')
                    if rec['cache_before'] != rec['cache_after'] or rec['async_lines']:
                        diff = [k for k in rec['cache_before'] if rec['cache_before'][k] != rec['cache_after'].get(k)]
                        res.append(Violation('C04.cache-touched-by-rejected-request', 'cache' if diff else 'update',
                                             f'{what}: rejected, but cache entries {diff} changed / updates '
                                             f'{rec["async_lines"][:2]} were emitted'))
            elif verdict == dtgen.ACCEPT:
                bump('c04.must-accept')
                has_driver = (tkind == 'param' and tspec.get('write')) or tkind == 'cmd'
                if len(mine) > 1:
                    res.append(Violation('C04.driver-called-twice', kind, f'{what}: driver calls {mine}'))
                if has_driver and not mine and tkind != 'limit':
                    res.append(Violation('C04.valid-not-executed', 'refused' if is_err else 'skipped',
                                         f'{what}: valid for {di} and within limits, but the driver was not called; '
                                         f'reply {rep!r}'))
                elif not has_driver and is_err and tkind != 'limit':
                    res.append(Violation('C04.valid-not-executed', 'refused', f'{what}: valid for {di}; reply {rep!r}'))
                if mine:
                    c = mine[0]
                    argdi = di if kind == 'change' else di.get('argument')
                    if argdi is not None and not dtgen.wire_equal(argdi, info, c.get('arg')):
                        res.append(Violation('C04.driver-got-other-value', argdi['type'],
                                             f'{what}: canonical value {info!r}, driver got {c.get("arg")!r}'))
                    if c.get('outcome') in ('ok', 'none') and is_err:
                        res.append(Violation('C04.error-after-execution', kind,
                                             f'{what}: the driver executed it successfully, reply {rep!r}'))
            else:
                # don't care: but whatever reached the driver must itself be valid and within limits
                if mine and kind == 'change' and tkind == 'param':
                    c = mine[0]
                    v2, _ = dtgen.classify(di, c.get('arg'))
                    if v2 == dtgen.REJECT:
                        res.append(Violation('C04.invalid-reached-driver', 'lenient|' + di['type'],
                                             f'{what}: driver got {c.get("arg")!r}, not a value of {di}'))
        # whatever reaches a write method must satisfy the limits in force at that moment (checks, limit changes
        # through write methods and the driver call itself all happen under the access lock of the module)
        for c in calls:
            if c['kind'] != 'write' or not c.get('limits') or not c['task'].startswith('conn'):
                continue
            spec = specs.get(c['mod'])
            pspec = next((q for q in spec['params'] if q['name'] == c['name']), None) if spec else None
            if pspec is None or pspec['di']['type'] not in genmod.NUMERIC:
                continue
            try:
                v = dtgen.to_internal(pspec['di'], c['arg'])
            except Exception:   # noqa
                continue
            snap = c['limits']
            lo, hi = snap['limits'] if 'limits' in snap else (snap.get('min', float('-inf')), snap.get('max', float('inf')))
            bump('c04.limits-checked-at-driver')
            if not lo <= v <= hi:
                res.append(Violation('C04.outside-limits-at-driver', 'moved-by-driver' if ctx.get('moves') else 'wire',
                                     f'write_{c["name"]}({c["arg"]!r}) of module {c["mod"]} was called while its limits '
                                     f'were {snap}'))
        stray = [c for c in calls if c['seq'] not in claimed and c['task'].startswith('conn')]
        for c in stray[:1]:
            res.append(Violation('C04.unattributed-driver-call', c['kind'], f'driver call {c} belongs to no request'))
        return res

    @staticmethod
    def _has_limit(p, post):
        lim = p.get('limits')
        return lim and p['di']['type'] in genmod.NUMERIC and (
            (post == '_min' and lim in ('min', 'minmax')) or (post == '_max' and lim in ('max', 'minmax')) or
            (post == '_limits' and lim == 'limits'))

    def _limits_now(self, ctx, rec, pspec, mname):
        """limits in force when the request was processed: all requests are serialised by the
        dispatcher, so replaying the accepted limit changes up to this request gives them"""
        if not pspec.get('limits') or pspec['di']['type'] not in genmod.NUMERIC:
            return None
        key = (mname, pspec['name'])
        state = ctx.setdefault('_limits', {})
        # use the snapshot the driver recorded when it was called, else the last known one
        return state.get(key, 'unknown') if False else self._replay_limits(ctx, rec, pspec, mname)

    def _replay_limits(self, ctx, rec, pspec, mname):
        di = pspec['di']
        lo0 = dtgen.to_internal(di, di.get('min')) if di.get('min') is not None else None
        hi0 = dtgen.to_internal(di, di.get('max')) if di.get('max') is not None else None
        if lo0 is None:
            lo0 = -dtgen.FMAX
        if hi0 is None:
            hi0 = dtgen.FMAX
        lim = pspec['limits']
        snap = {}
        if lim == 'limits':
            snap['limits'] = [lo0, hi0]
        if lim in ('min', 'minmax'):
            snap['min'] = lo0
        if lim in ('max', 'minmax'):
            snap['max'] = hi0
        # apply every limit change that was answered 'changed' before this request's reply
        def processed_at(r):
            # the node stamps the limit parameter when it processes the change
            try:
                return r['reply'].data[1].get('t', 0)
            except Exception:   # noqa
                return 0
        done = [r for r in ctx['requests'] if r['reply_seq'] < rec['send_seq'] and r['reply'] is not None
                and r['reply'].action == 'changed' and r['op'].get('limit') and r['op']['m'] == mname]
        for other in sorted(done, key=processed_at):
            op = other['op']
            for post in ('min', 'max', 'limits'):
                if op['name'] == expname(f'{pspec["name"]}_{post}') and post in snap:
                    val = other['reply'].data[0]
                    snap[post] = [dtgen.to_internal(di, x) for x in val] if post == 'limits' else dtgen.to_internal(di, val)
        # a driver side thread moves these limits at its own pace: judged at the driver call instead
        if any(mv['m'] == mname and mv['p'] == pspec['name'] for mv in ctx.get('moves') or ()):
            return 'uncertain'
        # with several clients a limit change may overlap this request: then the limits are uncertain
        for other in ctx['requests']:
            op = other['op']
            if other is not rec and op.get('limit') and op['m'] == mname and \
                    other['send_seq'] < rec['reply_seq'] and other['reply_seq'] > rec['send_seq']:
                return 'uncertain'
        return snap


CHECK = C04()
