"""C19 -- discovery responder: bounded well-formed answers, unkillable by datagrams

The real UDPListener (constructor + run() in its own task) on a simulated
datagram socket.  Equipment ids and descriptions are generated (ASCII,
multi-byte, characters needing JSON escapes, lengths around the 508 byte
budget), interface lists contain tcp and non-tcp entries.  Several peers send
datagram sequences (valid requests, other JSON values, invalid UTF-8, empty,
oversized); the network loses, duplicates, reorders and truncates them.
"""
import json
import threading
import time

from sim import env
from sim.harness import Check, Violation

from frappy.core import Readable
from frappy.protocol.discovery import UDPListener


class PlainSensor(Readable):
    """the one module of the node in 'server' mode"""

    def read_value(self):
        return 1.0

MAXLEN = 508


def gen_text(rng, n, alphabet):
    return ''.join(rng.choice(alphabet) for _ in range(n))


ALPHABETS = {
    'ascii': 'abcdefghijklmnopqrstuvwxyz ABC 0123456789 _-.',
    'escapes': '"\\\n\t\r\b\x01\x1f/"\\',
    'multibyte': 'äöüπ€☃𝄞漢字',
    'mixed': 'abc "quoted" \\path\\ ünïcödé € 𝄞 \n line',
}

DATAGRAMS = [
    b'{"SECoP": "discover"}', b'{"SECoP":"discover","extra":[1,2,3]}', b' {"SECoP": "discover"} ',
    b'{"SECoP": "node"}', b'{"SECoP": "Discover"}', b'{"secop": "discover"}', b'{}', b'[]', b'["SECoP"]',
    b'"SECoP"', b'"discover"', b'3', b'3.5', b'null', b'true', b'', b' ', b'\xff\xfe\xfd', b'{"SECoP": "disc\xff"}',
    b'{"SECoP": "discover"', b'{"SECoP": ["discover"]}', b'{"SECoP": {"discover": 1}}', b'{"SECoP": null}',
    b'NaN', b'[[[[[[[[[[[[[[[[[[[[', b'{"SECoP": "discover"}' + b' ' * 1100, b'{"a": "' + b'x' * 1100 + b'"}',
    b'\x00\x00', b'{"SECoP": "discover"}\n', b'{"SECoP": "discover"}{"SECoP": "discover"}',
    # between the budget of an answer (508) and the receive size (1024): a valid request, and garbage which starts
    # with a request padded up to byte 508
    b'{"SECoP":"discover","pad":"' + b'x' * 600 + b'"}', b'{"SECoP": "discover"}' + b' ' * 487 + b'garbage' * 20,
    b'{"SECoP":"discover","pad":"' + b'y' * 480 + b'"}',
    # the text of a request in other encodings (SECoP is UTF-8: these are no discovery requests)
    '{"SECoP": "discover"}'.encode('utf-16'), '{"SECoP": "discover"}'.encode('utf-32'),
    b'\xfe\xff' + '{"SECoP": "discover"}'.encode('utf-16-be'), '{"SECoP": "discover"}'.encode('utf-16-le'),
    b'\xef\xbb\xbf{"SECoP": "discover"}', '{"SECoP": "discover"}'.encode('utf-32-be'),
]


class C19(Check):
    ID = 'C19'
    TIERS = {'quick': {'runs': 40000, 'wall': 60}, 'thorough': {'runs': 1500000, 'wall': 700}}
    RULE = ('[server mode: a restart in 30 % of the cases with discovery broadcasts every 30 ms during the restart and the shutdown, delivered to every socket bound to the port; request text in UTF-16/UTF-32/with byte order mark among the datagrams] ' '[15 % of the cases start the responder through the real Server.run with 1..3 tcp interfaces of which some are '
            'held by another listener for 0.2 s .. for ever] case = equipment id + description (alphabet in {ascii, JSON escapes, multi-byte, mixed}, lengths around the '
            '508 byte budget) + interface list (tcp / ws entries) + datagram sequence from 1..3 peers (valid requests, '
            'other JSON values, invalid UTF-8, empty, oversized) with loss, duplication, reordering and truncation at '
            'the receive size; distinct = different (case digest, schedule digest); non-trivial = >= 3 datagrams of '
            'which >= 1 is not a discovery request, or a description within 120 bytes of the budget')
    REAL = ['frappy.protocol.discovery.UDPListener (__init__ budgeting/truncation, _getMessage, run, shutdown)',
            'server mode (15 % of the cases): frappy.server.Server.run / _interfaceThread / shutdown, '
            'frappy.protocol.interface.tcp.TCPServer (constructor with its bind retries) + TCPRequestHandler, Dispatcher']
    STUB = ['UDP socket (sim.net.UdpSocket)', 'get_version (constant)', 'clock',
            'server mode: socketserver.ThreadingTCPServer (sim.tcpserver: binds and accepts on the simulated network, a '
            'port held by another listener gives EADDRINUSE)']
    ASSUMPTIONS = ['a datagram is a discovery request iff it decodes (UTF-8, JSON) to an object whose member "SECoP" is '
                   'the string "discover"; a request truncated by the receive size is judged by what arrived']
    PROBES = ('c19.description-truncated', 'c19.responder-disabled', 'c19.non-request', 'c19.invalid-utf8',
              'c19.non-object-json', 'net.udp-lost', 'net.udp-duplicated', 'net.udp-reordered', 'net.udp-truncated',
              'c19.near-budget', 'c19.server-mode', 'c19.server-responder-started', 'c19.requests-during-shutdown', 'c19.node-restart', 'c19.requests-during-restart', 'fault.port-held-by-somebody-else',
              'fault.bind-address-in-use')

    def gen_case(self, rng, tier):
        alpha = rng.choice(list(ALPHABETS))
        r = rng.random()
        if r < 0.3:
            n = rng.randrange(0, 60)
        elif r < 0.8:
            n = rng.randrange(150, 520)
        else:
            n = rng.randrange(500, 1500)
        ida = rng.choice(['ascii', 'ascii', 'multibyte', 'escapes'])
        idn = rng.choice([3, 20, 60, 200, 460, 520]) if rng.random() < 0.5 else rng.randrange(1, 40)
        ifaces = [f'tcp://{rng.choice([10767, 2055, 65535, 1])}']
        for _ in range(rng.randrange(0, 3)):
            ifaces.append(rng.choice([f'tcp://{rng.randrange(1, 65536)}', f'ws://{rng.randrange(1, 65536)}']))
        rng.shuffle(ifaces)
        ops = []
        for _ in range(rng.randrange(1, 25 if tier == 'thorough' else 14)):
            ops.append({'peer': rng.randrange(3), 'd': rng.randrange(len(DATAGRAMS)) if rng.random() < 0.6 else 0,
                        'dt': rng.choice([0, 0, 0.01, 1.0]),
                        'net': rng.choice(['ok', 'ok', 'ok', 'lost', 'dup', 'late'])})
        eid = gen_text(rng, idn, ALPHABETS[ida])
        if rng.random() < 0.12:
            # the identity alone (empty description, five digit port) at the edge of the budget: exactly MAXLEN bytes,
            # or a few more or less
            def idlen(e):
                return len(json.dumps({'SECoP': 'node', 'port': 65535, 'equipment_id': e, 'firmware': 'FRAPPY sim',
                                       'description': ''}, ensure_ascii=False, separators=(',', ':')).encode('utf-8'))
            want = MAXLEN + rng.choice([0, 0, 0, -1, 1, -2, 2])
            eid = gen_text(rng, 470, ALPHABETS[ida])
            while eid and idlen(eid) > want:
                eid = eid[:-1]
            while idlen(eid) < want:
                eid += 'x'
        shape = {'p_switch': rng.choice([0.1, 0.5]), 'equipment_id': eid,
                 'description': gen_text(rng, n, ALPHABETS[alpha]), 'ifaces': ifaces,
                 'broadcast': rng.random() < 0.7}
        if rng.random() < 0.15:
            # the responder as the real Server.run starts it: interfaces are bound on the simulated network first
            # (a port may be held by somebody else for a while or for ever), then the responder gets the list of
            # the interfaces which came up
            ports = rng.sample([10767, 2055, 4001, 65535], rng.choice([1, 2, 2, 3]))
            shape['mode'] = 'server'
            shape['broadcast'] = True      # Server.run starts the responder with its default
            shape['shutdown_phase'] = rng.choice([0.05, 0.17, 0.29, 0.41, 0.53])   # against the 0.5 s poll of the tcp servers

            shape['ifaces'] = [f'tcp://{q}' for q in ports]
            shape['occupied'] = {str(q): rng.choice([None, None, 0.2, 1.0, 3.0, 6.0])
                                 for q in ports[1:] if rng.random() < 0.6}
            if rng.random() < 0.1:
                shape['occupied'][str(ports[0])] = rng.choice([0.2, 3.0])
            shape['restart'] = rng.random() < 0.3 and not shape['occupied']
            if len(shape['equipment_id']) < 1:
                shape['equipment_id'] = 'node'
        return {'shape': shape, 'ops': ops}

    def main(self, sim, case, ctx):
        if case['shape'].get('mode') == 'server':
            return self.main_server(sim, case, ctx)
        return self.main_responder(sim, case, ctx)

    def main_server(self, sim, case, ctx):
        shape = case['shape']
        sim.count('c19.server-mode')
        world = ctx['world'] = env.World(sim)
        net = world.net
        for port, release in shape['occupied'].items():
            lst = net.listen(int(port), lambda sock, addr: sock.close())
            lst.owner = 'foreign'
            sim.count('fault.port-held-by-somebody-else')
            if release is not None:
                def free(port=int(port), lst=lst):
                    if net.listeners.get(port) is lst:
                        del net.listeners[port]
                sim.call_at(sim.now + release, free)
        ifaces = shape['ifaces']
        srv = world.make_server('n', {'m': {'cls': PlainSensor, 'description': 'sensor'}},
                                node_cfg={'equipment_id': shape['equipment_id'], 'description': shape['description'],
                                          'interface': ifaces[0], 'secondary': ifaces[1:]})
        ctx['cleanup'] = [lambda: env.forget_classes(PlainSensor)]
        ended = []

        def run():
            try:
                srv.run()
            except BaseException as e:   # noqa
                ended.append(repr(e))
                raise
            ended.append(None)
        th = threading.Thread(target=run, name='server-run')
        th.start()
        sim.wait_until(lambda: srv.discovery is not None or ended, 60, what='node start')
        time.sleep(0.05)
        ctx['run_ended_early'] = list(ended)
        # the ports on which the node really accepts connections now
        ctx['node_ports'] = sorted(q for q, l in net.listeners.items() if l.accept and getattr(l, 'owner', None) not in
                                   (None, 'foreign'))
        ctx['registered'] = sorted(srv.interfaces)
        if srv.discovery is None:
            ctx['no_responder'] = True
            srv.shutdown()
            th.join(30)
            return
        lst = ctx['listener'] = srv.discovery
        sock = ctx['sock'] = net.udp_sockets[-1]
        self.feed(sim, case, ctx, sock)
        udp_tasks = [t for t in sim.tasks if t.name.endswith(':run') and 'discovery' in t.name]
        ctx['alive'] = any(t.state != 'done' for t in udp_tasks) if udp_tasks else lst.running
        ctx['enabled'] = lst.is_enabled
        # (taken before the node is restarted or shut down: a responder whose socket is closed under it by its own
        # shutdown() may end with EBADF, which no datagram is to blame for)
        ctx['task_exc'] = next((repr(t.exc) for t in udp_tasks if t.exc is not None), None)
        # every announced port answers with the identification of this node
        ctx['idn'] = {}
        for q in sorted({int(i.split('://')[1]) for i in ifaces}):
            try:
                c = world.net.create_connection(('simhost', q), timeout=2)
                c.sendall(b'*IDN?\n')
                c.settimeout(2)
                buf = b''
                while b'\n' not in buf:
                    part = c.recv(200)
                    if not part:
                        break
                    buf += part
                ctx['idn'][q] = buf
                c.close()
            except OSError as e:
                ctx['idn'][q] = repr(e)
        if shape.get('restart'):
            # the node is restarted (Server.restart(), as the router does): the interfaces come up again, and discovery
            # requests must be answered again
            sim.count('c19.node-restart')
            nopen = len([e for e in getattr(net, 'listen_log', ()) if e[3] == 'open'])
            # discovery broadcasts keep coming while the node restarts (they reach every socket bound to the port)
            rstop = []

            def restart_prober():
                k = 0
                while not rstop and k < 200:
                    k += 1
                    for s_ in list(net.udp_sockets):
                        if not s_.closed:
                            s_.inject(b'{"SECoP": "discover"}', ('10.0.0.66', 46000 + k))
                    time.sleep(0.03)
            rp = threading.Thread(target=restart_prober, name='restart-prober')
            rp.start()
            sim.count('c19.requests-during-restart')
            srv.restart()
            up = sim.wait_until(lambda: len([e for e in getattr(net, 'listen_log', ()) if e[3] == 'open']) >= nopen + len(ctx['node_ports'])
                                and all(net.listeners.get(q) is not None and net.listeners[q].accept for q in ctx['node_ports']),
                                60, what='node restart')
            rstop.append(1)
            rp.join()
            time.sleep(1.0)
            ctx['restart_up'] = bool(up)
            ctx['restart_seq'] = sim.next_seq()
            for s_ in net.udp_sockets:
                if not s_.closed:
                    s_.inject(b'{"SECoP": "discover"}', ('10.0.0.88', 48000))
            time.sleep(1.0)
            ctx['after_restart'] = [(q_, d_) for s_ in net.udp_sockets for (_t, q_, d_, a_) in s_.sent
                                    if a_ == ('10.0.0.88', 48000)]
            live = next((s_ for s_ in reversed(net.udp_sockets) if not s_.closed), sock)
        else:
            live = sock
        # discovery requests keep coming while the node shuts down: whatever it still answers must be true
        stop = []

        def prober():
            k = 0
            while not stop and k < 80:
                k += 1
                for s_ in list(net.udp_sockets):
                    if not s_.closed:
                        s_.inject(b'{"SECoP": "discover"}', ('10.0.0.77', 47000 + k))
                time.sleep(0.03)
        pt = threading.Thread(target=prober, name='prober')
        pt.start()
        time.sleep(shape.get('shutdown_phase', 0.1))
        sim.count('c19.requests-during-shutdown')
        srv.shutdown()
        th.join(30)
        stop.append(1)
        pt.join()
        ctx['listen_log'] = list(getattr(net, 'listen_log', ()))
        ctx['all_sent'] = sorted((x for s_ in net.udp_sockets for x in s_.sent), key=lambda x: x[1])
        ctx['ended'] = not th.is_alive()

    def main_responder(self, sim, case, ctx):
        shape = case['shape']
        world = ctx['world'] = env.World(sim)
        log = world.logger('discovery')
        try:
            lst = UDPListener(shape['equipment_id'], shape['description'], shape['ifaces'], log,
                              startup_broadcast=shape['broadcast'])
        except Exception as e:   # noqa
            ctx['ctor_failed'] = repr(e)
            return
        ctx['listener'] = lst
        sock = ctx['sock'] = world.net.udp_sockets[-1]
        th = threading.Thread(target=lst.run, name='udp')
        th.start()
        time.sleep(0.01)
        self.feed(sim, case, ctx, sock)
        ctx['alive'] = th.is_alive()
        ctx['enabled'] = lst.is_enabled
        lst.shutdown()
        th.join(5)
        ctx['ended'] = not th.is_alive()
        ctx['task_exc'] = next((repr(t.exc) for t in sim.tasks if t.name == 'udp' and t.exc is not None), None)

    @staticmethod
    def feed(sim, case, ctx, sock):
        delivered = ctx['delivered'] = []
        late = []
        for op in case['ops']:
            if op['dt']:
                time.sleep(op['dt'])
            data = DATAGRAMS[op['d']]
            addr = (f'10.0.0.{op["peer"] + 1}', 40000 + op['peer'])
            if op['net'] == 'lost':
                sim.count('net.udp-lost')
                continue
            if op['net'] == 'late':
                sim.count('net.udp-reordered')
                late.append((data, addr))
                continue
            n = 2 if op['net'] == 'dup' else 1
            if n == 2:
                sim.count('net.udp-duplicated')
            for _ in range(n):
                delivered.append((sim.next_seq(), data, addr))
                sock.inject(data, addr)
            if len(data) > 1024:
                sim.count('net.udp-truncated')
        for data, addr in late:
            delivered.append((sim.next_seq(), data, addr))
            sock.inject(data, addr)
        time.sleep(1.0)
        # liveness: a final valid request from a fresh peer
        ctx['final_seq'] = sim.next_seq()
        sock.inject(b'{"SECoP": "discover"}', ('10.0.0.99', 49999))
        time.sleep(1.0)

    def observation(self, sim, case, ctx):
        s = ctx.get('sock')
        return [(d, a) for _t, _q, d, a in s.sent] if s else ctx.get('ctor_failed')

    def nontrivial(self, sim, case, ctx):
        shape = case['shape']
        base = len(json.dumps({'SECoP': 'node', 'port': 65535, 'equipment_id': shape['equipment_id'],
                               'firmware': 'FRAPPY sim', 'description': shape['description']},
                              ensure_ascii=False, separators=(',', ':')).encode())
        near = abs(base - MAXLEN) < 120
        if near:
            sim.counters['c19.near-budget'] = sim.counters.get('c19.near-budget', 0) + 1
        return near or (len(case['ops']) >= 3 and any(not self.is_request(DATAGRAMS[o['d']][:1024]) for o in case['ops']))

    @staticmethod
    def is_request(data):
        try:
            obj = json.loads(data.decode('utf-8'))
        except (UnicodeDecodeError, ValueError, RecursionError):
            return False
        return isinstance(obj, dict) and obj.get('SECoP') == 'discover'

    def judge(self, sim, case, ctx):
        res = []
        shape = case['shape']
        cnt = sim.counters

        def bump(k):
            cnt[k] = cnt.get(k, 0) + 1
        if 'ctor_failed' in ctx:
            return [Violation('C19.constructor-raised', 'init', ctx['ctor_failed'])]
        if shape.get('mode') == 'server':
            if ctx.get('no_responder'):
                # no interface came up (or the node failed to start): nothing is announced at all
                if ctx.get('node_ports'):
                    res.append(Violation('C19.no-responder', 'server', f'the node listens on {ctx["node_ports"]} but started '
                                                                       f'no responder ({ctx.get("run_ended_early")})'))
                return res
            bump('c19.server-responder-started')
        sock = ctx['sock']
        ports = [int(i.split('://')[1]) for i in shape['ifaces'] if i.startswith('tcp')]
        if shape.get('mode') == 'server':
            # "a TCP port it really listens on": bound on the network by this node, and answering
            ports = [q for q in ctx['node_ports'] if isinstance(ctx['idn'].get(q), bytes) and
                     ctx['idn'][q].startswith(b'ISSE')]
        eid, desc = shape['equipment_id'], shape['description']

        def msg_len(d):
            return len(json.dumps({'SECoP': 'node', 'port': 65535, 'equipment_id': eid, 'firmware': 'FRAPPY sim',
                                   'description': d}, ensure_ascii=False, separators=(',', ':')).encode('utf-8'))
        identity_fits = msg_len('') <= MAXLEN
        # ---- every datagram sent is a bounded, well-formed identity message
        for _t, _q, data, addr in ctx.get('all_sent') or sock.sent:
            site = None
            try:
                obj = json.loads(data.decode('utf-8'))
            except (UnicodeDecodeError, ValueError) as e:
                res.append(Violation('C19.malformed-answer', type(e).__name__, f'{data[:80]!r}: {e}'))
                continue
            if len(data) > MAXLEN:
                site = 'too-long'
            elif not isinstance(obj, dict) or obj.get('SECoP') != 'node' or obj.get('equipment_id') != eid or \
                    'firmware' not in obj:
                site = 'identity'
            elif obj.get('port') not in ports:
                site = 'port'
            elif not isinstance(obj.get('description'), str) or not desc.startswith(obj['description']):
                site = 'description-not-a-prefix'
            if site:
                res.append(Violation('C19.bad-answer', site, f'{len(data)} bytes to {addr}: {data[:120]!r}'))
                break
            if shape.get('mode') == 'server' and ctx.get('listen_log') is not None:
                # ... and listens on at the moment the datagram leaves (also while the node goes down)
                state = None
                for q_, _tt, port, what in ctx['listen_log']:
                    if port == obj['port'] and q_ < _q:
                        state = what
                if state != 'open':
                    res.append(Violation('C19.bad-answer', 'port-closed-already',
                                         f'datagram to {addr} at t={_t:.3f} announces port {obj["port"]}, which the node '
                                         f'had closed before (listening sockets: {[(round(t2, 3), p2, w2) for _s2, t2, p2, w2 in ctx["listen_log"]]})'))
                    break
            if obj['description'] != desc:
                bump('c19.description-truncated')
        # ---- after a restart of the node discovery requests are answered again (for every interface)
        if shape.get('mode') == 'server' and 'after_restart' in ctx and ctx['enabled']:
            if not ctx.get('restart_up'):
                res.append(Violation('C19.no-answer-after-restart', 'interfaces-not-up',
                                     f'60 s after Server.restart() the interfaces {ctx["node_ports"]} do not listen again'))
            else:
                got_ports = set()
                for _q2, d2 in ctx['after_restart']:
                    try:
                        got_ports.add(json.loads(d2.decode('utf-8')).get('port'))
                    except (UnicodeDecodeError, ValueError):
                        pass
                if not set(ctx['node_ports']) <= got_ports:
                    res.append(Violation('C19.no-answer-after-restart', 'silent',
                                         f'the node was restarted and listens on {ctx["node_ports"]} again, but a discovery '
                                         f'request got answers for the ports {sorted(p_ for p_ in got_ports if p_)} only'))
        # ---- enabled unless the identity alone does not fit
        if not ctx['enabled']:
            bump('c19.responder-disabled')
            if identity_fits:
                res.append(Violation('C19.disabled-although-identity-fits', 'escapes' if msg_len(desc) > 2 * len(desc.encode()) * 0 + MAXLEN and
                                     len(json.dumps(desc, ensure_ascii=False).encode()) > len(desc.encode()) + 2 else 'other',
                                     f'message with empty description has {msg_len("")} bytes (<= {MAXLEN}) but the responder '
                                     f'disabled itself; description {len(desc.encode())} bytes raw, '
                                     f'{len(json.dumps(desc, ensure_ascii=False).encode())} bytes as JSON'))
            return res
        if not identity_fits:
            res.append(Violation('C19.enabled-although-identity-too-long', 'budget',
                                 f'message with empty description has {msg_len("")} bytes'))
            return res
        for _q, data, _a in ctx.get('delivered', ()):
            try:
                if not isinstance(json.loads(data[:1024].decode('utf-8')), dict):
                    bump('c19.non-object-json')
            except (UnicodeDecodeError, ValueError, RecursionError):
                pass
        # ---- answers iff discovery request; keeps answering
        if ctx.get('task_exc') or not ctx['alive']:
            # which datagram killed it?
            killer = None
            nrecv = len(sock.received)
            if nrecv:
                killer = sock.received[-1][2]
            kind = 'unknown'
            if killer is not None:
                try:
                    kobj = json.loads(killer[:1024].decode('utf-8'))
                    kind = 'json-' + type(kobj).__name__
                except UnicodeDecodeError:
                    kind = 'invalid-utf8'
                    bump('c19.invalid-utf8')
                except (ValueError, RecursionError):
                    kind = 'invalid-json'
            res.append(Violation('C19.responder-killed', kind,
                                 f'the responder task ended ({ctx.get("task_exc")}) after datagram {killer[:60] if killer else None!r}; '
                                 f'later requests stay unanswered'))
            return res
        expected = []
        for _seq, data, addr in ctx['delivered']:
            if self.is_request(data[:1024]):
                expected += [addr] * len(ports)
            else:
                bump('c19.non-request')
                try:
                    data[:1024].decode('utf-8')
                except UnicodeDecodeError:
                    bump('c19.invalid-utf8')
        expected += [('10.0.0.99', 49999)] * len(ports)
        answers = [a for _t, _q, _d, a in sock.sent if a[0] not in ('255.255.255.255', '10.0.0.66', '10.0.0.77', '10.0.0.88')]   # (not the shutdown prober)
        if sorted(answers) != sorted(expected):
            missing = [a for a in set(expected) if expected.count(a) > answers.count(a)]
            extra = [a for a in set(answers) if answers.count(a) > expected.count(a)]
            res.append(Violation('C19.answer-count', 'missing' if missing else 'extra',
                                 f'expected answers to {sorted(set(expected))} ({len(expected)}), got {len(answers)}; '
                                 f'missing for {missing} extra for {extra}'))
        bc = [a for _t, _q, _d, a in sock.sent if a[0] == '255.255.255.255']
        if shape['broadcast'] and len(bc) != len(ports):
            res.append(Violation('C19.startup-broadcast', 'count', f'{len(bc)} broadcasts for ports {ports}'))
        return res


CHECK = C19()
