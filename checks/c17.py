"""C17 -- persistent parameters: crash-atomic, exact round trip, retried after failure

The real PersistentMixin runs over interposed file operations (sim.fs) in a
per-run scratch directory.  For a generated module (persistent parameters of
all datatypes, some with write methods, some given in the configuration) and
a generated history of value changes, saves, loads, factory resets and
restarts, the history is first run fault-free to learn the file operations of
every save; then it is *repeated once per file-system operation and fault
kind* (error, torn write, crash before / after / inside the operation) --
this inner enumeration is exhaustive.  Stored files are also corrupted
(truncation at every byte, bit flips, type changes, unknown and stale keys,
unreadable file).
"""
import json
import os
import shutil
import threading
import time
from pathlib import Path

from sim import dtgen, env, fs as simfs, kernel
from sim.harness import Check, Violation

import frappy.persistent as persistent
from frappy.core import Module, PersistentMixin, PersistentParam
from frappy.lib import generalConfig

FAULT_KINDS = ('error', 'torn', 'crash_before', 'crash_after', 'crash_torn')


def make_class(spec):
    ns = {'__module__': __name__}
    for p in spec['params']:
        dt = dtgen.build_datatype(p['di'])
        kw = {'persistent': p['persistent']}
        if p.get('default') is not None:
            kw['default'] = dtgen.to_internal(p['di'], p['default'])
        # (a read-only persistent parameter is kept by the software alone: it has no write method at all)
        ns[p['name']] = PersistentParam(f'persistent {p["name"]}', dt, readonly=bool(p.get('readonly')), **kw)
        if p.get('write') and not p.get('readonly'):
            def wf(self, value, pname=p['name']):
                self.hwlog.append((pname, value))
                return value
            ns['write_' + p['name']] = wf
    for p in spec.get('plain', ()):
        from frappy.core import Parameter
        ns[p['name']] = Parameter('not persistent', dtgen.build_datatype(p['di']), readonly=False,
                                  default=dtgen.to_internal(p['di'], p['default']))
    return type('PersMod', (PersistentMixin, Module), ns)


class Stub:
    pass


class C17(Check):
    SPIN_READS = None      # one task replays thousands of histories without ever blocking
    ID = 'C17'
    LEVEL = 'fault_enumeration'
    TIERS = {'quick': {'runs': 250, 'wall': 80}, 'thorough': {'runs': 12000, 'wall': 800}}
    RUN_WALL = 120
    RULE = ('case = generated module (1..4 persistent parameters over all datatypes, persistent on/auto, with/without '
            'write method, writable or read-only, optionally given in the configuration) + history of <= 8 operations {set, assign, save, load, '
            'factory_reset, restart}; per case the history is replayed once for every (file operation of every save) x '
            '{error, torn write, crash before, crash after, crash inside} -- exhaustive per history -- and the stored '
            'file is corrupted by truncation at every byte, sampled bit flips and type/key changes; evaluations = '
            'histories, coverage.fault_placements = single-fault executions; distinct = different case digest; '
            'non-trivial = >= 1 save with >= 4 file operations was fault-enumerated')
    REAL = ['frappy.persistent.PersistentMixin (__init__, loadPersistentData, loadParameters, saveParameters, '
            '__save_params, factory_reset)', 'frappy.modulebase.Module (callbacks, writeInitParams)',
            'frappy.datatypes export_value/import_value of every datatype']
    STUB = ['file system calls of frappy.persistent (open, os.rename, os.remove, os.makedirs) interposed by sim.fs over '
            'a real scratch directory', 'dispatcher / secnode (stubs as in test_persistent.py)', 'hardware write methods']
    ASSUMPTIONS = ['crash model = process crash: every completed system call survives, an interrupted write leaves a '
                   'prefix; power loss (un-fsynced data vanishing after a completed rename) is not judged',
                   'one fault per replayed history']
    PROBES = ('c17.restart-in-process', 'fs.error', 'fs.torn', 'fs.crash_before', 'fs.crash_after', 'fs.crash_torn', 'c17.corrupt-file',
              'c17.restart-after-crash', 'c17.retry-after-error', 'c17.cfg-given', 'c17.concurrent-saves')

    def gen_case(self, rng, tier):
        params = []
        for i in range(rng.randrange(1, 5)):
            di = dtgen.gen_datainfo(rng, rng.choice([0, 1, 2]))
            params.append({'name': f'p{i}', 'di': di, 'default': dtgen.valid_wire(rng, di),
                           'persistent': rng.choice(['auto', 'auto', 'on']), 'write': rng.random() < 0.5,
                           'given': dtgen.valid_wire(rng, di) if rng.random() < 0.25 else None,
                           'readonly': rng.random() < 0.25})
        plain = []
        if rng.random() < 0.4:
            di = dtgen.gen_datainfo(rng, 0)
            plain.append({'name': 'q0', 'di': di, 'default': dtgen.valid_wire(rng, di)})
        ops = []
        for _ in range(rng.randrange(2, 9)):
            kind = rng.choice(['set', 'set', 'assign', 'assign', 'save', 'load', 'reset', 'restart'])
            op = {'kind': kind}
            if kind in ('set', 'assign'):
                p = rng.choice(params)
                op['p'] = p['name']
                # (strings may contain lone surrogates: what surrogateescape decoding and JSON escapes give)
                op['v'] = dtgen.valid_wire(rng, p['di'], surrogates=True)
            ops.append(op)
        ops.append({'kind': 'save'})
        shape = {'spec': {'params': params, 'plain': plain, 'same_process': rng.random() < 0.6}, 'nflip': 6 if tier == 'quick' else 40,
                 'prepopulate': rng.choice([None, 'valid', 'valid'])}
        if rng.random() < 0.3:
            # two threads change persistent parameters of the module at the same time (a poller assigning a reading, a
            # command of a client): the automatic saves must not get into each other's way
            shape['concurrent'] = [{'p': rng.choice(params)['name'], 'dt': rng.choice([0, 0, 0.001])} for _ in range(rng.choice([2, 2, 3]))]
            for c in shape['concurrent']:
                c['v'] = dtgen.valid_wire(rng, next(p['di'] for p in params if p['name'] == c['p']))
            shape['p_switch'] = rng.choice([0.3, 0.6])
        return {'shape': shape, 'ops': ops}

    # ------------------------------------------------------------------ machinery
    def setup(self, sim, ctx):
        root = Path(env.SCRATCH) / f'c17-{os.getpid()}'
        shutil.rmtree(root, ignore_errors=True)
        root.mkdir(parents=True)
        ctx['root'] = root
        fs = ctx['fs'] = simfs.SimFS(sim, root)
        ctx['old'] = (persistent.__dict__.get('open'), persistent.os, generalConfig._config.get('logdir'))
        persistent.open = fs.open
        persistent.os = fs.os
        generalConfig._config['logdir'] = root

        def undo():
            old_open, old_os, old_logdir = ctx['old']
            if old_open is None:
                persistent.__dict__.pop('open', None)
            else:
                persistent.open = old_open
            persistent.os = old_os
            generalConfig._config['logdir'] = old_logdir
            shutil.rmtree(root, ignore_errors=True)
        ctx.setdefault('cleanup', []).append(undo)
        return fs

    def create(self, ctx, cls, spec, plan=None):
        if plan is not None:
            ctx['fs'].reset(plan)
        srv = Stub()
        srv.dispatcher = Stub()
        srv.dispatcher.announce_update = lambda m, p: None
        srv.secnode = Stub()
        srv.secnode.equipment_id = 'eq'
        cfg = {'description': 'persistent module'}
        # a restart inside the process (Server.restart) builds the modules again from the configuration kept in
        # memory: the sections are copied (shallow, as SecNode does), the parameter entries are the same objects
        kept = ctx.setdefault('kept_cfg', {})
        for p in spec['params']:
            if p.get('given') is not None:
                if spec.get('same_process', True) and p['name'] in kept:
                    ctx['world'].sim.count('c17.restart-in-process')
                else:
                    kept[p['name']] = {'value': dtgen.to_internal(p['di'], p['given'])}
                cfg[p['name']] = kept[p['name']]
        log = ctx['world'].logger('pers')
        mod = cls('m', log, cfg, srv)
        mod.hwlog = []
        mod.earlyInit()
        mod.initModule()
        mod.writeInitParams()
        return mod

    @staticmethod
    def snapshot(mod):
        return {k: json.loads(json.dumps(v.export_value())) for k, v in mod.parameters.items()
                if getattr(v, 'persistent', False)}

    def target(self, ctx):
        return ctx['root'] / 'persistent' / 'eq.m.json'

    def read_target(self, ctx):
        t = self.target(ctx)
        if not t.exists():
            return 'absent', None
        raw = t.read_text(encoding='utf-8', errors='replace')
        try:
            return 'ok', json.loads(raw)
        except ValueError:
            return 'garbage', raw[:200]

    def run_history(self, sim, ctx, cls, case, plan, upto=None):
        """run the history with at most one planned fault; returns a record"""
        fs = ctx['fs']
        spec = case['shape']['spec']
        rec = {'plan': plan, 'saves': [], 'crashed': None, 'raised': []}
        mod = None
        fs.reset(None)
        nsave = 0
        try:
            mod = self.create(ctx, cls, spec)
        except Exception as e:   # noqa
            rec['create_failed'] = repr(e)
            return rec
        for k, op in enumerate(case['ops']):
            if upto is not None and k > upto:
                break
            before = self.snapshot(mod)
            file_before = self.read_target(ctx)
            active = plan is not None and plan['op'] == k
            fs.reset({'at': plan['at'], 'kind': plan['kind'], 'frac': plan.get('frac', 0.5),
                      'errno': plan.get('errno', 28)} if active else None)
            raised = None
            try:
                kind = op['kind']
                if kind == 'set' and not next(p for p in spec['params'] if p['name'] == op['p']).get('readonly'):
                    di = next(p['di'] for p in spec['params'] if p['name'] == op['p'])
                    getattr(mod, 'write_' + op['p'])(dtgen.to_internal(di, op['v']))
                elif kind == 'set':
                    di = next(p['di'] for p in spec['params'] if p['name'] == op['p'])
                    setattr(mod, op['p'], dtgen.to_internal(di, op['v']))
                elif kind == 'assign':
                    di = next(p['di'] for p in spec['params'] if p['name'] == op['p'])
                    setattr(mod, op['p'], dtgen.to_internal(di, op['v']))
                elif kind == 'save':
                    mod.saveParameters()
                elif kind == 'load':
                    mod.loadParameters()
                elif kind == 'reset':
                    mod.factory_reset()
                elif kind == 'restart':
                    mod = self.create(ctx, cls, spec)
            except kernel.SimCrash:
                rec['crashed'] = k
            except Exception as e:   # noqa
                raised = repr(e)
                rec['raised'].append((k, raised))
            nops = fs.count
            log = list(fs.log)
            fired = fs.fired
            fs.reset(None)
            after = self.snapshot(mod) if rec['crashed'] is None else None
            rec['saves'].append({'k': k, 'kind': op['kind'], 'nops': nops, 'log': log, 'before': before, 'after': after,
                                 'file_before': file_before, 'file_after': self.read_target(ctx), 'fired': fired,
                                 'raised': raised})
            if rec['crashed'] is not None:
                break
        rec['mod'] = mod
        return rec

    # ------------------------------------------------------------------ run
    def main(self, sim, case, ctx):
        ctx['world'] = env.World(sim)
        self.setup(sim, ctx)
        spec = case['shape']['spec']
        cls = make_class(spec)
        ctx['cleanup'].append(lambda: env.forget_classes(cls))
        out = ctx['out'] = {'violations': [], 'placements': 0, 'fault_free': None}
        V = out['violations']

        def fresh_dir():
            shutil.rmtree(ctx['root'] / 'persistent', ignore_errors=True)
            if case['shape']['prepopulate'] == 'valid':
                (ctx['root'] / 'persistent').mkdir(parents=True)
                data = {p['name']: p['default'] for p in spec['params']}
                self.target(ctx).write_text(json.dumps(data), encoding='utf-8')
        # ---- 0. concurrent changes from several threads (no fault): the file is a complete snapshot after every file
        #         operation and holds the live values at the end
        if case['shape'].get('concurrent'):
            sim.count('c17.concurrent-saves')
            fresh_dir()
            fs0 = ctx['fs']
            fs0.reset(None)
            mod = self.create(ctx, cls, spec)
            bad = []

            def look():
                st_, data_ = self.read_target(ctx)
                if st_ == 'garbage' and len(bad) < 3:
                    bad.append((fs0.log[-1] if fs0.log else None, str(data_)[:80]))
            fs0.yield_ops = True
            fs0.on_done = look
            errs = []

            def changer(c):
                if c['dt']:
                    time.sleep(c['dt'])
                di_ = next(p['di'] for p in spec['params'] if p['name'] == c['p'])
                try:
                    setattr(mod, c['p'], dtgen.to_internal(di_, c['v']))
                except Exception as e:   # noqa
                    errs.append(repr(e))
            ths = [threading.Thread(target=changer, args=(c,), name=f'changer{i}')
                   for i, c in enumerate(case['shape']['concurrent'])]
            for t in ths:
                t.start()
            for t in ths:
                t.join()
            fs0.yield_ops = False
            fs0.on_done = None
            st_, data_ = self.read_target(ctx)
            live_ = self.snapshot(mod)
            autos = all(p['persistent'] == 'auto' for p in spec['params'] if p['name'] in {c['p'] for c in case['shape']['concurrent']})
            if bad:
                V.append(Violation('C17.partial-file', 'concurrent-saves',
                                   f'while {len(ths)} threads changed persistent parameters at the same time the file was '
                                   f'no complete snapshot after {bad[0][0]}: {bad[0][1]!r}'))
            elif st_ != 'ok' or (autos and data_ != live_):
                V.append(Violation('C17.file-differs-from-live-values', 'concurrent-saves',
                                   f'after {len(ths)} threads changed persistent parameters at the same time the file holds '
                                   f'{data_!r} ({st_}), live values {live_!r}'))
        # ---- 1. fault-free run: learn the file operations of every step, check the round trip
        fresh_dir()
        base = self.run_history(sim, ctx, cls, case, None)
        if 'create_failed' in base:
            V.append(Violation('C17.creation-failed', 'fault-free', base['create_failed']))
            return
        out['fault_free'] = [(s['kind'], s['nops']) for s in base['saves']]
        ctx['after_by_k'] = {s['k']: s['after'] for s in base['saves']}
        for s in base['saves']:
            if s['raised']:
                V.append(Violation('C17.operation-raised', s['kind'], f'fault-free {s["kind"]} raised {s["raised"]}'))
        mod = base['mod']
        live = self.snapshot(mod)
        st, data = self.read_target(ctx)
        if st != 'ok' or data != live:
            V.append(Violation('C17.file-differs-from-live-values', 'fault-free',
                               f'after the history (ending with a save) the file holds {data!r} ({st}), live values {live!r}'))
        # restart: every parameter restored, configuration wins
        fs = ctx['fs']
        fs.reset(None)
        try:
            mod2 = self.create(ctx, cls, spec)
            self.judge_restart(V, spec, data if st == 'ok' else {}, mod2, 'fault-free')
        except Exception as e:   # noqa
            V.append(Violation('C17.restart-failed', 'fault-free', repr(e)))
        if any(p.get('given') is not None for p in spec['params']):
            sim.count('c17.cfg-given')
        # ---- 2. one fault at every file operation of every step
        for s in base['saves']:
            if s['nops'] == 0:
                continue
            if s['nops'] >= 4:
                ctx['nontrivial'] = True
            for at in range(s['nops']):
                opkind = s['log'][at][1]
                for buffered in (False, True):
                    for fk in FAULT_KINDS:
                        tearable = opkind == 'write' and not buffered or opkind == 'close' and buffered
                        if fk in ('torn', 'crash_torn') and not tearable:
                            continue
                        if buffered and opkind == 'write' and fk != 'crash_before':
                            continue     # a buffered write touches no file: one crash point is enough
                        fracs = (0.0, 0.5, 0.99) if fk in ('torn', 'crash_torn') else (0.5,)
                        for frac in fracs:
                            fresh_dir()
                            plan = {'op': s['k'], 'at': at, 'kind': fk, 'frac': frac, 'buffered': buffered}
                            out['placements'] += 1
                            ctx['fs'].buffered = buffered
                            rec = self.run_history(sim, ctx, cls, case, plan, upto=s['k'])
                            ctx['fs'].buffered = False
                            self.judge_fault(sim, ctx, cls, case, V, rec, plan, opkind)
                            if len(V) > 20:
                                return
        # ---- 3. corrupted stored files
        fresh_dir()
        base2 = self.run_history(sim, ctx, cls, case, None)
        good = self.target(ctx).read_bytes() if self.target(ctx).exists() else b'{}'
        variants = []
        for cut in range(len(good)):
            variants.append(('truncate', good[:cut]))
        import random
        rng = random.Random(len(good) * 7919 + 1)
        for _ in range(case['shape']['nflip']):
            b = bytearray(good)
            if b:
                i = rng.randrange(len(b))
                b[i] ^= 1 << rng.randrange(8)
            variants.append(('bitflip', bytes(b)))
        try:
            obj = json.loads(good)
        except ValueError:
            obj = {}
        names = list(obj)
        variants += [('list', b'[]'), ('list2', json.dumps(list(obj.values())).encode()), ('number', b'5'),
                     ('string', b'"x"'), ('null', b'null'), ('empty', b''), ('nested', b'{"a": {"b": [1, 2]}}'),
                     ('unknown-key', json.dumps(dict(obj, zz_unknown=1)).encode()),
                     ('stale-key', json.dumps(dict(obj, q0=1, oldparam=[1, 2])).encode())]
        for n in names:
            variants.append(('wrong-type', json.dumps(dict(obj, **{n: 'a string'})).encode()))
            variants.append(('wrong-type2', json.dumps(dict(obj, **{n: [[1]]})).encode()))
            variants.append(('null-value', json.dumps(dict(obj, **{n: None})).encode()))
        # an outdated file: the datatype of a parameter changed since the file was written (a struct member added
        # or removed, narrower limits, fewer enum members, shorter arrays, ...)
        dis = {p['name']: p['di'] for p in spec['params']}
        for n in names:
            if n in dis:
                for w in dtgen.boundary_payloads(rng, dis[n], 4):
                    try:
                        variants.append(('outdated-' + dis[n]['type'], json.dumps(dict(obj, **{n: w})).encode()))
                    except ValueError:
                        pass
        variants.append(('unreadable', None))
        defaults_mod = None
        for kind, content in variants:
            sim.count('c17.corrupt-file')
            out['placements'] += 1
            fs.reset(None)
            shutil.rmtree(ctx['root'] / 'persistent', ignore_errors=True)
            (ctx['root'] / 'persistent').mkdir(parents=True)
            if content is None:
                self.target(ctx).write_bytes(good)
            else:
                self.target(ctx).write_bytes(content)
            try:
                if content is None:
                    # the file exists but can not be read: EACCES at the first open
                    m = self.create(ctx, cls, spec, plan={'at': 1, 'kind': 'error', 'errno': 13})
                else:
                    m = self.create(ctx, cls, spec)
            except Exception as e:   # noqa
                V.append(Violation('C17.corrupt-file-prevents-startup', kind,
                                   f'stored file {kind} ({(content or b"<directory>")[:60]!r}): module creation raised {e!r}'))
                continue
            # entries that are still valid must be used, the others fall back to default / cfg
            try:
                stored = json.loads(content) if content else None
            except ValueError:
                stored = None
            if isinstance(stored, dict):
                self.judge_restart(V, spec, stored, m, f'corrupt:{kind}', lenient=True)
            if len(V) > 20:
                return

    def judge_restart(self, V, spec, stored, mod, where, lenient=False):
        for p in spec['params']:
            got = json.loads(json.dumps(mod.parameters[p['name']].export_value()))
            if p.get('given') is not None:
                want = p['given']
                why = 'configuration'
            elif p['name'] in stored:
                want = stored[p['name']]
                why = 'stored file'
                if lenient:
                    v, info = dtgen.classify(p['di'], want)
                    if v != dtgen.ACCEPT:
                        want = p['default']
                        why = 'default (stored entry unusable)'
                        if v == dtgen.DONTCARE:
                            continue
            else:
                want = p['default']
                why = 'default'
            if not dtgen.wire_equal(p['di'], want, got):
                V.append(Violation('C17.restore-mismatch', f'{where.split(":")[0]}|{why.split()[0]}|{p["di"]["type"]}',
                                   f'{where}: {p["name"]} should be {want!r} ({why}), module holds {got!r}'))

    def judge_fault(self, sim, ctx, cls, case, V, rec, plan, opkind):
        spec = case['shape']['spec']
        if 'create_failed' in rec:
            V.append(Violation('C17.creation-failed', plan['kind'], rec['create_failed']))
            return
        s = rec['saves'][-1] if rec['saves'] else None
        if s is None or s['fired'] is None:
            return
        ctx['fs'].buffered = False       # the fault was not reached (nondeterministic op count would be a harness problem)
        where = f'{plan["kind"]}@{opkind}' + ('|buffered' if plan.get('buffered') else '')
        st, data = s['file_after']
        st0, data0 = s['file_before']
        crashed = rec['crashed'] is not None
        # (a) the target file is always a complete snapshot: the previous or the new one
        if st == 'garbage':
            V.append(Violation('C17.partial-file', where, f'after {plan}: target file is not valid JSON: {data!r}'))
            return
        if st == 'absent' and st0 != 'absent':
            V.append(Violation('C17.file-lost', where, f'after {plan}: the target file existed before and is gone'))
            return
        if st == 'ok':
            cands = [data0 if st0 == 'ok' else None, s['before']]
            # the new snapshot: what the module would hold after the operation (from the fault-free run)
            cands.append(self._expected_after(case, s['k'], ctx))
            if not crashed and rec.get('mod') is not None:
                cands.append(self.snapshot(rec['mod']))     # e.g. defaults after a failed load, saved again
            if not any(c is not None and data == c for c in cands):
                V.append(Violation('C17.file-neither-old-nor-new', where,
                                   f'after {plan}: file holds {data!r}; previous file {data0!r}; values before {s["before"]!r}'))
                return
        if crashed:
            sim.count('c17.restart-after-crash')
            fs = ctx['fs']
            fs.reset(None)
            try:
                m = self.create(ctx, cls, spec)
            except Exception as e:   # noqa
                V.append(Violation('C17.restart-failed', where, f'after crash {plan}: module creation raised {e!r}'))
                return
            self.judge_restart(V, spec, data if st == 'ok' else {}, m, f'crash:{where}')
            return
        if s['kind'] == 'restart' and s['raised']:
            return      # the restart itself failed with the injected error: there is no new module object
        # (c) an injected error: the save failed -- the next save must try again
        if plan['kind'] in ('error', 'torn'):
            sim.count('c17.retry-after-error')
            mod = rec['mod']
            fs = ctx['fs']
            live = self.snapshot(mod)
            if data == live:
                return      # nothing was lost
            fs.reset(None)
            try:
                mod.saveParameters()
            except Exception as e:   # noqa
                V.append(Violation('C17.retry-raised', where, f'save after the failed save raised {e!r}'))
                return
            st2, data2 = self.read_target(ctx)
            if fs.count == 0 and not mod.writeDict:
                V.append(Violation('C17.retry-missing', where,
                                   f'after {plan} the file holds {data!r} but the live values are {live!r}; the next '
                                   f'saveParameters() performed no file operation at all'))
            elif data2 != live and not mod.writeDict:
                V.append(Violation('C17.retry-incomplete', where,
                                   f'after the retry the file holds {data2!r}, live values {live!r}'))

    def _expected_after(self, case, k, ctx):
        cache = ctx.setdefault('_after', {})
        if not cache:
            # filled lazily from the fault-free run recorded in ctx['out']
            pass
        return ctx.get('after_by_k', {}).get(k)

    # ------------------------------------------------------------------ oracle
    def observation(self, sim, case, ctx):
        out = ctx.get('out', {})
        return out.get('fault_free'), out.get('placements'), [v['sig'] for v in out.get('violations', ())]

    def nontrivial(self, sim, case, ctx):
        return bool(ctx.get('nontrivial'))

    def judge(self, sim, case, ctx):
        out = ctx['out']
        sim.counters['c17.fault-placements'] = out['placements']
        seen = set()
        res = []
        for v in out['violations']:
            if v['sig'] not in seen:
                seen.add(v['sig'])
                res.append(v)
        return res


CHECK = C17()
