"""C05 -- the update stream always reconstructs the node's parameter cache

One connection is activated while the node is quiet; then 1..3 driver-side
tasks run generated histories of reads (ok / raising / invalid value), writes,
attribute assignments (equal and different values) and explicit error
announcements against generated parameters of all datatypes, under all
settings of omit_unchanged_within / update_unchanged.

Oracle, two layers:
 (i)  a register model of the cache fed from the driver-level operations
      (needed because the funnel under test also produces the callbacks the
      second layer relies on);
 (ii) the connection's byte stream against the ground-truth cache history:
      order preserving, no state the cache never held, final message = cache.
"""
import threading
import time

from sim import dtgen, env, genmod, nodeworld
from sim.harness import Check, Violation

from frappy.errors import HardwareError, CommunicationFailedError


class C05(Check):
    ID = 'C05'
    TRACE_FILES = ('modulebase.py', 'protocol/dispatcher.py', 'params.py')
    TIERS = {'quick': {'runs': 12000, 'wall': 75}, 'thorough': {'runs': 400000, 'wall': 800}}
    RULE = ('[12 % focus cases: one task re-assigns the value it finds while another one changes the same parameter at the same instant; failing application callbacks as functions / partial objects / callable instances; bytearray assigned to blobs] ' 'case = 1..2 generated modules (2..4 parameters over all datatypes, omit_unchanged_within in '
            '{0, default, 5 s}, update_unchanged in {default, always, never, number}) + 1..3 driver tasks with '
            'generated operation histories {read ok/raising/invalid, write, assign equal/different/invalid, '
            'announce error, repeated identical errors} with time gaps below and above the suppression window; '
            'distinct = different (case digest, schedule digest); non-trivial = >= 5 operations executed, >= 1 '
            'error->ok recovery or suppressed update exercised, and (with >= 2 tasks) >= 1 scheduling decision '
            'among >= 2 runnable tasks')
    REAL = ['frappy.modulebase.Module.announceUpdate + read_/write_ wrappers + Parameter.__set__',
            'frappy.protocol.dispatcher (make_update, broadcast_event, handle_activate)',
            'frappy.protocol.interface.tcp.TCPRequestHandler', 'frappy.server.Server._processCfg, SecNode']
    STUB = ['hardware (fake driver with registers and outcome scripts)', 'TCP sockets (sim.net)', 'clock',
            'socketserver accept loop']
    ASSUMPTIONS = ['cache history = parameter callbacks invoked by frappy inside the update lock',
                   'the text of an error report is not compared (it changes while the exception propagates); error '
                   'class and a unique token per raised error are',
                   'with several driver tasks the final cache entry must equal the effect of an operation that no '
                   'other completed operation on that parameter strictly follows (event sequence numbers)']
    PROBES = ('c05.recovery-same-value', 'c05.suppressed-unchanged', 'c05.repeated-error', 'c05.invalid-read',
              'c05.concurrent-same-param', 'c05.late-activation', 'fault.parameter-callback-raised', 'c05.device-timestamp')

    def gen_case(self, rng, tier):
        specs = []
        for i in range(rng.choice([1, 1, 2])):
            spec = {'name': f'm{i}', 'base': 'Module', 'export': True, 'enablePoll': False, 'params': [], 'cmds': [],
                    'omit': rng.choice([None, 0, 5.0, 0.1])}
            for j in range(rng.randrange(2, 5)):
                p = genmod.gen_param(rng, f'p{j}', depth=rng.choice([0, 1, 2]), writable_p=1.0)
                p['read'] = True
                p['write'] = rng.random() < 0.8
                p['readonly'] = False
                p['unchanged'] = rng.choice(['default', 'default', 'always', 'never', 0.05, 2.0])
                spec['params'].append(p)
            specs.append(spec)
        ntasks = rng.choice([1, 1, 2, 3])
        plist = [(s['name'], p) for s in specs for p in s['params']]
        ops = []
        tok = 0
        for t in range(ntasks):
            focus = rng.sample(plist, min(len(plist), rng.randrange(1, 3)))
            for _ in range(rng.randrange(3, 22 if ntasks == 1 else 12)):
                mname, p = rng.choice(focus)
                kind = rng.choice(['read_ok', 'read_ok', 'read_same', 'read_err', 'read_err_same', 'read_exc',
                                   'read_invalid', 'write', 'write_fail', 'assign', 'assign_same', 'assign_invalid',
                                   'announce_err', 'announce_err_same'])
                if kind.startswith('write') and not p['write']:
                    kind = 'assign'
                tok += 1
                op = {'task': t, 'm': mname, 'p': p['name'], 'kind': kind, 'tok': tok,
                      'dt': rng.choice([0, 0, 0, 0.01, 0.06, 0.3, 6.0])}
                if kind in ('read_ok', 'write', 'assign'):
                    op['v'] = dtgen.valid_wire(rng, p['di'], surrogates=kind != 'write')
                if kind == 'write':
                    op['ret'] = rng.choice(['same', 'none', 'other'])
                    if op['ret'] == 'other':
                        op['v2'] = dtgen.valid_wire(rng, p['di'])
                if kind == 'assign' and rng.random() < 0.3:
                    op['ts'] = 'device'
                if kind == 'assign_invalid':
                    op['v'] = rng.choice([None, 'zz\0'])
                    if p['di']['type'] == 'blob':
                        # the receive buffer of the driver itself (a mutable bytearray, not bytes)
                        op['v'] = rng.choice([None, 'zz\0', 'bytearray'])
                ops.append(op)
        rng.shuffle(ops)
        if rng.random() < 0.12:
            # focus: within the suppression window one task keeps assigning the value it finds (a poller which reads
            # the same again) while another one assigns new values to the same parameter at the same instant
            ntasks = 2
            mname, p = rng.choice(plist)
            spec = next(s_ for s_ in specs if s_['name'] == mname)
            spec['omit'] = rng.choice([5.0, 0.1])
            p['unchanged'] = 'default'
            ops = [{'task': 0, 'm': mname, 'p': p['name'], 'kind': 'assign', 'tok': 1, 'dt': 0.3,
                    'v': dtgen.valid_wire(rng, p['di'])}]
            for k in range(rng.randrange(2, 6)):
                ops.append({'task': 0, 'm': mname, 'p': p['name'], 'kind': 'assign_same', 'tok': 2 + 2 * k, 'dt': 0})
                ops.append({'task': 1, 'm': mname, 'p': p['name'], 'kind': 'assign', 'tok': 3 + 2 * k,
                            'dt': 0.3 if k == 0 else 0, 'v': dtgen.valid_wire(rng, p['di'])})
        elif rng.random() < 0.08:
            # focus: several different values of one parameter stamped with the same device time (a clock with a
            # resolution of 1 s), among other operations
            mname, p = rng.choice(plist)
            burst = [{'task': 0, 'm': mname, 'p': p['name'], 'kind': 'assign', 'tok': 900 + k, 'dt': rng.choice([0, 0.01]),
                      'v': dtgen.valid_wire(rng, p['di']), 'ts': 'device'} for k in range(rng.randrange(2, 5))]
            pos = rng.randrange(len(ops) + 1)
            ops = ops[:pos] + burst + ops[pos:]
        shape = {'p_switch': rng.choice([0.1, 0.3, 0.6]), 'line_gaps': rng.choice([0, 0, 8, 12, 15]),
                 'seg_bias': rng.choice([1.0, 0.6]), 'lat_bias': rng.choice([1.0, 0.6]),
                 'specs': specs, 'ntasks': ntasks, 'slow_consumer': rng.random() < 0.15,
                 'late_activate': rng.choice([None, None, 0, 0.001, 0.05, 0.3]),
                 'extra_clients': rng.choice([0, 0, 1, 2])}
        if rng.random() < 0.3:
            # parameter callbacks of the application (an automatic save, an update_ hook) which fail now and then
            shape['cb_faults'] = {}
            for s in specs:
                for p in s['params']:
                    if rng.random() < 0.5:
                        shape['cb_faults'][f'{s["name"]}.{p["name"]}'] = {
                            'exc': rng.choice(['OSError', 'KeyError', 'ValueError', 'RuntimeError', 'ZeroDivisionError']),
                            'every': rng.choice([1, 2, 3]), 'style': rng.choice(['function', 'partial', 'object'])}
        return {'shape': shape, 'ops': ops}

    def shrink_candidates(self, case):
        sh = case['shape']
        if sh['line_gaps']:
            yield dict(case, shape=dict(sh, line_gaps=0))
        if sh['seg_bias'] < 1 or sh['lat_bias'] < 1:
            yield dict(case, shape=dict(sh, seg_bias=1.0, lat_bias=1.0))
        if sh['ntasks'] > 1:
            yield dict(case, shape=dict(sh, ntasks=1), ops=[dict(o, task=0) for o in case['ops']])
        for i, o in enumerate(case['ops']):
            if o['dt']:
                ops = list(case['ops'])
                ops[i] = dict(o, dt=0)
                yield dict(case, ops=ops)

    # ------------------------------------------------------------------ run
    def main(self, sim, case, ctx):
        shape = case['shape']
        world = ctx['world'] = env.World(sim, shape['seg_bias'], shape['lat_bias'])
        drv = genmod.Driver(sim)
        node = nodeworld.Node(world, 'n', shape['specs'], drv)
        ctx['cleanup'] = [node.forget]
        node.watch_cache()
        if shape.get('cb_faults'):
            node.add_flaky_callbacks(shape['cb_faults'])
        ctx['initial'] = {k: (sim.next_seq(), v) for k, v in node.cache().items()}
        ctx['history'] = node.history
        single = shape['ntasks'] == 1
        cl = ctx['client'] = nodeworld.RawClient(world)
        if shape.get('slow_consumer'):
            world.handlers[cl.hidx]['sock'].peer.rcvbuf = 300
        r = cl.request('activate', timeout=60)
        ctx['activated'] = r is not None and r[2].raw == b'active'
        ctx['nsnapshot'] = len(cl.lines)
        extra = ctx['extra_clients'] = []
        for _ in range(shape.get('extra_clients', 0)):
            # further connections activated from the start: every one of them must see the whole history
            c3 = nodeworld.RawClient(world)
            r3 = c3.request('activate', timeout=60)
            if r3 is not None and r3[2].raw == b'active':
                extra.append(c3)
        oplog = ctx['oplog'] = []
        errors = ctx['task_errors'] = []
        di_of = {(s['name'], p['name']): p['di'] for s in shape['specs'] for p in s['params']}
        last_err_tok = {}

        def state_of(mname, pname):
            pobj = node.module(mname).parameters[pname]
            try:
                w = dtgen.to_wire(di_of[mname, pname], pobj.value)
            except Exception as e:   # noqa
                w = f'<unexportable {e!r}>'
            err = pobj.readerror
            return w, (None if err is None else [err.name, str(err)])

        def run_op(op):
            mname, pname, kind = op['m'], op['p'], op['kind']
            mobj = node.module(mname)
            di = di_of[mname, pname]
            rec = {'op': op, 'inv': sim.next_seq(), 'hist_before': len(node.history)}
            if single:
                rec['before'] = state_of(mname, pname)
            raised = None
            me = threading.current_thread().name
            pc = drv.percall[me] = {}
            try:
                if kind in ('read_ok', 'read_same'):
                    pc['out'] = 'ok'
                    if kind == 'read_ok':
                        pc['ret'] = dtgen.to_internal(di, op['v'])
                    elif single:
                        # the hardware shows what the cache holds
                        pc['ret'] = mobj.parameters[pname].value
                    getattr(mobj, 'read_' + pname)()
                elif kind in ('read_err', 'read_err_same', 'read_exc', 'read_invalid'):
                    pc['out'] = {'read_err': 'tok', 'read_err_same': 'tok_same', 'read_exc': 'exc',
                                 'read_invalid': 'invalid'}[kind]
                    if kind in ('read_err', 'read_err_same'):
                        pc['token'] = op['tok'] if kind == 'read_err' else last_err_tok.get((mname, pname), op['tok'])
                        last_err_tok[mname, pname] = pc['token']
                        rec['tok_used'] = pc['token']
                    getattr(mobj, 'read_' + pname)()
                elif kind in ('write', 'write_fail'):
                    if kind == 'write_fail':
                        pc['out'] = 'secop'
                        v = mobj.parameters[pname].value
                    else:
                        pc['out'] = 'none' if op['ret'] == 'none' else 'ok'
                        if op['ret'] == 'other':
                            pc['ret'] = dtgen.to_internal(di, op['v2'])
                        v = dtgen.to_internal(di, op['v'])
                    getattr(mobj, 'write_' + pname)(v)
                elif kind == 'assign' and op.get('ts'):
                    # a value stamped by the device (clock with a resolution of 1 s): several changes carry one timestamp
                    sim.count('c05.device-timestamp')
                    mobj.announceUpdate(pname, dtgen.to_internal(di, op['v']), timestamp=float(int(time.time())))
                elif kind == 'assign':
                    setattr(mobj, pname, dtgen.to_internal(di, op['v']))
                elif kind == 'assign_same':
                    cur = mobj.parameters[pname].value
                    rec['same_v'] = dtgen.to_wire(di, cur)     # (with several tasks this is a read-modify-write)
                    setattr(mobj, pname, cur)
                elif kind == 'assign_invalid':
                    setattr(mobj, pname, bytearray(b'\x01\x02') if op['v'] == 'bytearray' else op['v'])
                elif kind in ('announce_err', 'announce_err_same'):
                    tok = op['tok'] if kind == 'announce_err' else last_err_tok.get((mname, pname), op['tok'])
                    last_err_tok[mname, pname] = tok
                    rec['tok_used'] = tok
                    mobj.announceUpdate(pname, err=CommunicationFailedError(f'announced tok{tok}'))
            except Exception as e:   # noqa
                raised = e
            drv.percall.pop(me, None)
            rec['ret'] = sim.next_seq()
            rec['raised'] = None if raised is None else type(raised).__name__
            rec['hist_after'] = len(node.history)
            if single:
                rec['after'] = state_of(mname, pname)
            oplog.append(rec)

        def task(tid):
            for op in case['ops']:
                if op['task'] % shape['ntasks'] != tid:
                    continue
                if op['dt']:
                    time.sleep(op['dt'])
                try:
                    run_op(op)
                except Exception as e:   # noqa
                    errors.append(f'task {tid}: harness error {e!r}')
        late = {}

        def late_client():
            # a second connection activates in the middle of the history: from its snapshot on, its stream
            # must replay to the cache like the stream of the first one
            if shape['late_activate']:
                time.sleep(shape['late_activate'])
            else:
                sim.yield_point()
            c2 = late['client'] = nodeworld.RawClient(world)
            r2 = c2.request('activate', timeout=60)
            late['activated'] = r2 is not None and r2[2].raw == b'active'
            sim.count('c05.late-activation')
        lt = None
        if shape.get('late_activate') is not None:
            lt = threading.Thread(target=late_client, name='late-client')
            lt.start()
        if single:
            task(0)
        else:
            ths = [threading.Thread(target=task, args=(i,), name=f'driver{i}') for i in range(shape['ntasks'])]
            for t in ths:
                t.start()
            for t in ths:
                t.join()
        if lt is not None:
            lt.join()
            ctx['late'] = late
        time.sleep(0.5)
        ctx['final'] = node.cache()
        ctx['final_states'] = {k: state_of(*k) for k in di_of}
        cl.drain(quiet=3.0, maxtime=60)
        if late.get('client') is not None:
            late['client'].drain(quiet=1.0, maxtime=30)
        for c3 in extra:
            c3.drain(quiet=1.0, maxtime=30)
        ctx['exports'] = {(m, p.name): p.export for m in node.secnode.modules
                          for p in node.module(m).parameters.values() if p.name in [q for (mm, q) in di_of if mm == m]}

    # ------------------------------------------------------------------ oracle
    def observation(self, sim, case, ctx):
        cl = ctx.get('client')
        return [ln.raw for _s, _t, ln in cl.lines] if cl else None

    def nontrivial(self, sim, case, ctx):
        n = len(ctx.get('oplog', ()))
        c = sim.counters
        interesting = c.get('c05.recovery-same-value', 0) + c.get('c05.suppressed-unchanged', 0) + \
            c.get('c05.repeated-error', 0) + c.get('c05.recovery', 0)
        if case['shape']['ntasks'] > 1 and sim.nchoice2 < 1:
            return False
        return n >= 5 and interesting >= 1

    def judge(self, sim, case, ctx):
        res = []
        shape = case['shape']
        cnt = sim.counters

        def bump(k):
            cnt[k] = cnt.get(k, 0) + 1
        for msg in ctx['task_errors']:
            res.append(Violation('C05.harness', 'task', msg))
        if not ctx['activated']:
            res.append(Violation('C05.activate-failed', 'activate', 'activation of the quiet node failed'))
            return res
        di_of = {(s['name'], p['name']): p['di'] for s in shape['specs'] for p in s['params']}
        single = shape['ntasks'] == 1

        # ---------- layer (i): register model
        def expected_after(op, before, rec):
            """(value wire or KEEP, error token/class or None or KEEP)"""
            kind = op['kind']
            keep = '<keep>'
            if kind == 'read_ok':
                return op['v'], None
            if kind == 'read_same':
                return (keep if single else '<any>'), None
            if kind in ('read_err', 'read_err_same'):
                return keep, ('HardwareError', f'tok{rec["tok_used"]}')
            if kind == 'read_exc':
                return keep, ('InternalError', 'ZeroDivisionError')
            if kind == 'read_invalid':
                return keep, ('<badvalue>', '')
            if kind == 'write':
                if op['ret'] == 'other':
                    return op['v2'], None
                return op['v'], None
            if kind == 'write_fail':
                return keep, keep
            if kind == 'assign':
                return op['v'], None
            if kind == 'assign_same':
                return (keep if single else rec.get('same_v', '<any>')), None
            if kind == 'assign_invalid':
                return keep, ('<badvalue>', '')
            if kind in ('announce_err', 'announce_err_same'):
                return keep, ('CommunicationFailed', f'tok{rec["tok_used"]}')
            raise ValueError(kind)

        def err_matches(exp, got):
            if exp is None:
                return got is None
            if got is None:
                return False
            cls, text = got
            if exp[0] == '<badvalue>':
                return cls in ('WrongType', 'RangeError', 'BadValue', 'InternalError') or 'Error' in cls
            return cls == exp[0] and exp[1] in text

        if single:
            for rec in ctx['oplog']:
                op = rec['op']
                key = (op['m'], op['p'])
                di = di_of[key]
                ev, ee = expected_after(op, rec['before'], rec)
                bv, be = rec['before']
                av, ae = rec['after']
                want_v = bv if ev == '<keep>' else ev
                want_e = be if ee == '<keep>' else ee
                if op['kind'] in ('read_same', 'assign_same', 'read_ok', 'write', 'assign') and be is not None:
                    bump('c05.recovery')
                    if ev == '<keep>' or dtgen.wire_equal(di, want_v, bv):
                        bump('c05.recovery-same-value')
                if op['kind'] in ('read_same', 'assign_same') and be is None and rec['hist_after'] == rec['hist_before']:
                    bump('c05.suppressed-unchanged')
                if op['kind'] in ('read_err_same', 'announce_err_same') and rec['hist_after'] == rec['hist_before']:
                    bump('c05.repeated-error')
                if op['kind'] == 'read_invalid':
                    bump('c05.invalid-read')
                okv = dtgen.wire_equal(di, want_v, av) if not isinstance(av, str) or di['type'] in ('string', 'blob') \
                    else False
                if ee == '<keep>':
                    oke = (ae is None) == (be is None) and (ae is None or ae[0] == be[0])
                else:
                    oke = err_matches(want_e, ae)
                if not okv or not oke:
                    res.append(Violation(
                        'C05.cache-vs-model', f'{op["kind"]}|{"value" if not okv else "error"}',
                        f'after {op["kind"]} on {key} (before: value {bv!r} error {be!r}) the cache holds value {av!r} '
                        f'error {ae!r}; the reference model expects value {want_v!r} error {want_e!r}'))
                    break
                # a change of the value-or-error state must have been announced
                changed = (be is None) != (ae is None) or not dtgen.wire_equal(di, bv, av) or \
                    (be is not None and ae is not None and be != ae and ee != '<keep>')
                if changed and rec['hist_after'] == rec['hist_before']:
                    res.append(Violation('C05.change-not-announced', op['kind'],
                                         f'{op["kind"]} on {key} changed the cache from ({bv!r}, {be!r}) to '
                                         f'({av!r}, {ae!r}) without announcing it'))
                    break
        else:
            byparam = {}
            for rec in ctx['oplog']:
                byparam.setdefault((rec['op']['m'], rec['op']['p']), []).append(rec)
            for key, recs in byparam.items():
                di = di_of[key]
                if len({r['op']['task'] % shape['ntasks'] for r in recs}) > 1:
                    bump('c05.concurrent-same-param')
                fv, fe = ctx['final_states'][key]
                vals = [(r, expected_after(r['op'], None, r)) for r in recs]
                if any(e[0] == '<any>' for _r, e in vals):
                    vals = [(r, (('<keep>' if e[0] == '<any>' else e[0]), e[1])) for r, e in vals]
                    vset = []
                else:
                    vset = [(r, e[0]) for r, e in vals if e[0] != '<keep>']
                eset = [(r, e[1]) for r, e in vals if e[1] != '<keep>']

                def last_candidates(lst):
                    return [(r, x) for r, x in lst if not any(o['inv'] > r['ret'] for o, _ in lst if o is not r)]
                if vset:
                    cands = last_candidates(vset)
                    if not any(dtgen.wire_equal(di, x, fv) for _r, x in cands):
                        res.append(Violation('C05.cache-vs-model', 'concurrent|value',
                                             f'final value of {key} is {fv!r}; none of the operations that may '
                                             f'have been last explains it: {[x for _r, x in cands][:6]}'))
                if eset:
                    cands = last_candidates(eset)
                    if not any(err_matches(x, fe) for _r, x in cands):
                        res.append(Violation('C05.cache-vs-model', 'concurrent|error',
                                             f'final error of {key} is {fe!r}; none of the operations that may '
                                             f'have been last explains it: {[x for _r, x in cands][:6]}'))

        # ---------- layer (ii): stream against cache history
        hist = ctx['history']
        states = {}
        for key, (seq, st) in ctx['initial'].items():
            states[key] = [(seq, st)]
        for h in hist:
            if h['export']:
                lst = states.setdefault((h['mod'], h['export']), [])
                if lst and len(lst) == 1 and h['seq'] <= lst[0][0]:
                    continue        # a change made before the initial state was taken is contained in it
                if lst and lst[-1][1] == h['state']:
                    continue        # the same announcement seen twice (value and timestamp identical)
                lst.append((h['seq'], h['state']))
        clients = [(ctx['client'], '')]
        if ctx.get('late', {}).get('activated'):
            clients.append((ctx['late']['client'], '|late'))
        for c3 in ctx.get('extra_clients', ()):
            clients.append((c3, '|second'))
        for cl, tag in clients:
            res.extend(self._replay(ctx, states, cl, tag, cnt))
        return res

    @staticmethod
    def _replay(ctx, states, cl, tag, cnt):
        """map every update line to an index of the cache history of its parameter.  A state may have been held
        several times (equal values stamped by a coarse device clock): the assignment with the fewest skipped states
        among the non-decreasing ones is taken, so an ambiguous line never raises an alarm"""
        res = []
        last = {}
        perkey = {}
        for (_seq, _t, ln) in cl.lines:
            if ln.action not in ('update', 'error_update'):
                continue
            if not ln.utf8 or not ln.json_ok or ':' not in (ln.spec or ''):
                res.append(Violation('C05.malformed-update', 'line' + tag, f'{ln!r}'))
                continue
            key = tuple(ln.spec.split(':', 1))
            st = nodeworld.msg_state(ln)
            cands = [i for i, (_s, s) in enumerate(states.get(key, ()))
                     if s[0] == st[0] and s[1] == st[1] and s[-1] == st[-1]]
            if not cands:
                res.append(Violation('C05.phantom-state', 'update' + tag,
                                     f'{ln!r} shows a state the cache never held; history of {key}: '
                                     f'{[s for _q, s in states.get(key, [])][-5:]}'))
                continue
            perkey.setdefault(key, []).append((ln, cands, _seq))
        for key, msgs in perkey.items():
            hist = states[key]
            # dp over the lines of this parameter: cost = number of lines which skip a state
            INF = 10 ** 9
            # the first line (the snapshot of the activation): a matching state held before the line arrived (with equal
            # states recurring and a slow network not necessarily the latest of them: the line may have been on its
            # way while the cache went to an error and back)
            ln0, c0, seq0 = msgs[0]
            held = [i for i in c0 if hist[i][0] <= seq0]
            first = held if held else [c0[0]]
            table = [{i: (0, None) for i in first}]
            for ln, cands, _q in msgs[1:]:
                prev = table[-1]
                cur = {}
                for i in cands:
                    best = None
                    for j, (cj, _b) in prev.items():
                        if j <= i and cj < INF:
                            c = cj + (1 if i > j + 1 else 0)
                            if best is None or c < best[0] or (c == best[0] and j > best[1]):
                                best = (c, j)
                    if best is not None:
                        cur[i] = best
                if not cur:
                    # no non-decreasing assignment: the stream goes back in the history
                    j = max(prev, key=lambda k: (-prev[k][0], k))
                    res.append(Violation('C05.stream-order', 'reordered' + tag,
                                         f'line {ln.idx} {ln!r} shows cache state #{cands[-1]} after an earlier line showed '
                                         f'the newer state #{j}'))
                    cur = {i: (0, None) for i in cands[-1:]}
                table.append(cur)
            # backtrack the cheapest assignment
            idxs = []
            i = min(table[-1], key=lambda k: (table[-1][k][0], k))
            for lvl in range(len(table) - 1, -1, -1):
                idxs.append(i)
                back = table[lvl][i][1]
                if back is None and lvl > 0:
                    back = max(table[lvl - 1], key=lambda k: (-table[lvl - 1][k][0], k))
                i = back
            idxs.reverse()
            for n, ((ln, _c, _q), idx) in enumerate(zip(msgs, idxs)):
                if n and idx > idxs[n - 1] + 1 and not cl.eof:
                    # an activated connection gets one message per announced change: no state of the cache is skipped
                    res.append(Violation('C05.change-not-announced', 'skipped' + tag,
                                         f'line {ln.idx} {ln!r} shows cache state #{idx} of {key}, the previous message for it '
                                         f'showed #{idxs[n - 1]}: {[s for _q2, s in hist[idxs[n - 1] + 1:idx]][:3]} never '
                                         f'reached this connection'))
                    break
            last[key] = (idxs[-1], msgs[-1][0].idx)
        final = ctx['final']
        if cl.eof:
            # the node dropped the (slow) consumer: nothing to compare at quiescence
            cnt['c05.consumer-dropped'] = cnt.get('c05.consumer-dropped', 0) + 1
            final = {}
        for key, st in final.items():
            lst = states.get(key, [])
            if key not in last:
                res.append(Violation('C05.final-mismatch', 'nothing' + tag, f'no message for exported parameter {key}'))
                continue
            shown = lst[last[key][0]][1]
            if not (shown[0] == st[0] and shown[1] == st[1] and shown[-1] == st[-1]):
                res.append(Violation('C05.final-mismatch', 'stale' + tag,
                                     f'replaying the stream gives {key} = {shown} but the cache holds {st}'))
        return res


CHECK = C05()
