"""C13 -- poller: bounded staleness, no starvation, survives failing reads

The real poll thread body (Module.__pollThread) runs for 1..4 generated
modules sharing one poll thread, in virtual time, against scripted read
functions (durations and failures) while a commander task changes poll
intervals, switches fast polling, triggers immediate polls and the clock
jumps forward.  The oracle works on the recorded call log.
"""
import threading
import time

from sim import env, kernel   # noqa: F401  (env installs the seams and imports frappy)
from sim.harness import Check, Violation

from frappy.core import Attached, FloatRange, IntRange, Module, Parameter, Readable, nopoll
from frappy.errors import CommunicationFailedError, HardwareError, NotImplementedSECoPError, SECoPError, \
    SilentCommunicationFailedError, TimeoutSECoPError

EPS = 0.01
OUTCOMES = ('ok', 'secop', 'silent', 'exc', 'exc2', 'timeout', 'notimpl', 'comfail')


class OddError(Exception):
    """an arbitrary driver exception with unusual attributes"""
    report_error = True

    def __str__(self):
        return 'odd %s' % (self.args,)


class FakeIO(Module):
    """owner of the shared poll thread"""
    enablePoll = False


def make_class(idx, spec, rec):
    """build a Readable subclass according to <spec>; every driver function
    reports to rec(...) and follows its script"""
    ns = {}
    scripts = spec['scripts']
    counters = {}

    def behave(self, fname):
        script = scripts[fname]
        k = counters.get((self.name, fname), 0)
        counters[(self.name, fname)] = k + 1
        dur, outcome = script[k % len(script)]
        tname = threading.current_thread().name
        rec(self.name, fname, 'start', tname)
        if dur:
            time.sleep(dur)
        rec(self.name, fname, 'end', tname, outcome)
        if outcome == 'secop':
            raise HardwareError(f'hw {fname} {k % 3}')
        if outcome == 'silent':
            raise SilentCommunicationFailedError(f'silent {fname}')
        if outcome == 'exc':
            raise ZeroDivisionError(f'bug in {fname}')
        if outcome == 'exc2':
            raise OddError(fname, k)
        if outcome == 'timeout':
            raise TimeoutSECoPError(f'{fname} took too long')
        if outcome == 'notimpl':
            raise NotImplementedSECoPError(f'{fname} not implemented for this device')
        if outcome == 'comfail':
            raise CommunicationFailedError(f'no connection {fname}')
        return k

    def doPoll(self):
        behave(self, 'doPoll')
        if spec['poll_reads_value']:
            self.read_value()
            self.read_status()
    ns['doPoll'] = doPoll

    def read_value(self):
        return float(behave(self, 'read_value') % 1000)
    ns['read_value'] = read_value

    def read_status(self):
        behave(self, 'read_status')
        return 100, ''
    ns['read_status'] = read_status
    ns['pollinterval'] = Parameter('poll interval', FloatRange(0, 120, unit='s'), default=5,
                                   readonly=False, export=True)
    for pname in spec['polled']:
        ns[pname] = Parameter(pname, IntRange(), default=0)

        def rf(self, pname=pname):
            return behave(self, 'read_' + pname)
        ns['read_' + pname] = rf
    for pname in spec['nopoll']:
        ns[pname] = Parameter(pname, IntRange(), default=0)

        def rf2(self, pname=pname):
            return behave(self, 'read_' + pname)
        ns['read_' + pname] = nopoll(rf2)
    for pname in spec['noread']:
        ns[pname] = Parameter(pname, IntRange(), default=0)
    if spec['shared']:
        ns['io'] = Attached()
    if spec.get('cb_raises'):
        # another subscriber of the poll interval (registered before the poller registers its own callback),
        # which fails: exceptions of parameter callbacks are ignored and must not keep the change from the poller
        def initModule(self):
            Readable.initModule(self)

            def failing(*args):
                raise OSError('cannot save the poll interval')
            self.addCallback('pollinterval', failing)
        ns['initModule'] = initModule
    ns['__module__'] = __name__
    return type(f'GenMod{idx}', (Readable,), ns)


def gen_script(rng, maxdur, fail_p, n, allow_comfail):
    res = []
    for _ in range(n):
        dur = 0.0
        if rng.random() < 0.6:
            dur = round(rng.choice([0.001, 0.01, 0.05, 0.2, 0.7, 1.5]) * rng.random(), 4)
            dur = min(dur, maxdur)
        outcome = 'ok'
        if rng.random() < fail_p:
            outcome = rng.choice(OUTCOMES[1:] if allow_comfail else OUTCOMES[1:-1])
        res.append([dur, outcome])
    return res


class C13(Check):
    ID = 'C13'
    TRACE_FILES = ('modulebase.py',)
    TIERS = {'quick': {'runs': 1600, 'wall': 70}, 'thorough': {'runs': 150000, 'wall': 780}}
    MAX_STEPS = 1_200_000
    RULE = ('[a quarter of the modules register a failing callback on pollinterval; optionally an unpolled module with a configured write] ' 'case = generated module set (1..4 modules on one poll thread, intervals, slow interval, scripted '
            'read durations/failures) + commander operations (interval change, fast poll, immediate trigger, '
            'clock jump); distinct = different (case digest, schedule digest); non-trivial = the poll thread '
            'completed >= 3 main polls and the run had >= 1 scheduling decision among >= 2 runnable tasks')
    REAL = ['frappy.modulebase.Module.__pollThread / callPollFunc / PollInfo / setFastPoll / writeInitParams',
            'frappy.server.Server._processCfg, frappy.secnode.SecNode, frappy.lib.multievent',
            'frappy read_/write_ wrappers, announceUpdate, Dispatcher.announce_update']
    STUB = ['hardware: scripted read/doPoll functions (virtual durations, failures)', 'clock (virtual)',
            'threading primitives (simulated locks on real threads)']
    ASSUMPTIONS = ['sweep := sum over the modules of the thread of the longest scripted main poll + the longest '
                   'scripted slow read; the staleness bound checked is interval-in-force + sweep (+ jumps inside '
                   'the gap); slow-poll bound is 3 x slowinterval + (number of polled parameters + 1) x sweep',
                   'pre-emption at lock operations, plus line events of frappy/modulebase.py in a third of the runs']
    PROBES = ('c13.failing-poll', 'c13.failing-interval-subscriber', 'c13.interval-change', 'c13.fast-poll', 'c13.trigger', 'clock.jump',
              'c13.comfail-at-startup', 'c13.back-to-back-requests', 'c13.unpolled-module')

    def gen_case(self, rng, tier):
        nmod = rng.choice([1, 2, 2, 3, 4])
        shared = nmod > 1 or rng.random() < 0.5
        fail_p = rng.choice([0.0, 0.1, 0.3, 0.5])
        maxdur = rng.choice([0.02, 0.3, 1.5])
        horizon = rng.choice([20.0, 60.0, 150.0, 300.0] if tier == 'quick' else [20.0, 60.0, 150.0, 300.0, 600.0])
        mods = []
        for i in range(nmod):
            interval = rng.choice([0, 0.1, 0.25, 0.5, 1.0, 2.0, 3.3, 5.0, 20.0, 60.0, 120.0])
            slow = rng.choice([0.1, 0.5, 1.0, 4.0, 15.0, 60.0, 120.0])
            polled = [f'p{j}' for j in range(rng.randrange(0, 4))]
            spec = {
                'name': f'm{i}', 'interval': interval, 'slow': slow, 'shared': shared,
                'polled': polled, 'nopoll': [f'n{j}' for j in range(rng.randrange(0, 2))],
                'noread': ['q0'] if rng.random() < 0.3 else [],
                'poll_reads_value': rng.random() < 0.7, 'cb_raises': rng.random() < 0.25,
                'scripts': {},
            }
            names = ['doPoll', 'read_value', 'read_status'] + ['read_' + p for p in polled + spec['nopoll']]
            for fn in names:
                md = maxdur
                if interval == 0 and fn == 'doPoll':
                    md = max(md, 0.05)
                sc = gen_script(rng, md, fail_p, rng.randrange(1, 6), allow_comfail=rng.random() < 0.3)
                if interval == 0 and fn == 'doPoll':
                    for e in sc:
                        e[0] = max(e[0], 0.05)
                if fn.startswith('read_n'):
                    # only the commander task calls these; it would hold the module's access lock
                    # for the scripted duration and delay the poll thread beyond one sweep
                    for e in sc:
                        e[0] = 0.0
                spec['scripts'][fn] = sc
            if interval == 0 or min(interval, slow) <= 0.1:
                horizon = min(horizon, 20.0)
            mods.append(spec)
        if nmod > 1 and rng.random() < 0.1:
            # focus: the device of one module does not answer - all its slowly polled parameters time out (a reply
            # time-out each) - while other modules share the poll thread
            spec = mods[0]
            spec['polled'] = ['p0', 'p1', 'p2']
            spec['slow'] = rng.choice([0.5, 1.0, 4.0])
            for pn in spec['polled']:
                spec['scripts']['read_' + pn] = [[rng.choice([0.2, 0.3]), 'comfail']]
        ops = []
        t = 0.0
        for _ in range(rng.randrange(0, 8)):
            t += round(rng.random() * horizon / 6, 3)
            if t >= horizon:
                break
            m = rng.randrange(nmod)
            kind = rng.choice(['interval', 'interval', 'fast_on', 'fast_off', 'trigger', 'jump', 'nopoll_read'])
            op = {'t': t, 'm': m, 'kind': kind}
            if kind == 'interval':
                op['v'] = rng.choice([0.1, 0.3, 1.0, 2.5, 10.0, 40.0, 120.0])
            elif kind == 'fast_on':
                op['v'] = rng.choice([0.25, 0.1, 1.0])
            elif kind == 'jump':
                op['v'] = rng.choice([0.5, 7.0, 90.0, 3700.0])
            if kind in ('interval', 'trigger', 'fast_off') and rng.random() < 0.4:
                # a second request at the same instant: it arrives while the poll thread, woken by the first one,
                # is working out how long to sleep
                op['then'] = rng.choice([{'kind': 'interval', 'v': rng.choice([0.1, 0.3, 1.0])},
                                         {'kind': 'fast_on', 'v': rng.choice([0.1, 0.25])}])
            ops.append(op)
        shape = {'p_switch': rng.choice([0.05, 0.2, 0.5]),
                 'line_gaps': rng.choice([0, 0, 10, 14]),
                 'horizon': horizon, 'mods': mods, 'passive': rng.random() < 0.3}
        return {'shape': shape, 'ops': ops}

    # ------------------------------------------------------------------ run
    def main(self, sim, case, ctx):
        shape = case['shape']
        log = ctx['log'] = []
        oplog = ctx['oplog'] = []

        def rec(*ev):
            if not sim.finished:
                log.append((sim.vnow(), sim.next_seq()) + ev)

        world = ctx['world'] = env.World(sim)
        classes = [make_class(i, spec, rec) for i, spec in enumerate(shape['mods'])]
        ctx['cleanup'] = [lambda: env.forget_classes(*classes, FakeIO)]
        cfg = {}
        shared = shape['mods'][0]['shared']
        if shared:
            cfg['io'] = {'cls': FakeIO, 'description': 'poll thread owner'}
        for spec, cls in zip(shape['mods'], classes):
            c = {'cls': cls, 'description': spec['name'], 'pollinterval': {'value': spec['interval']},
                 'slowinterval': spec['slow']}
            if shared:
                c['io'] = 'io'
            cfg[spec['name']] = c
            if spec.get('cb_raises'):
                sim.count('c13.failing-interval-subscriber')
        if shape.get('passive'):
            # a module which is not to be polled at all (enablePoll = False); it has a configured value to write, so
            # it is handed to the poll thread (of the shared io) for that one write
            def p_rec(fname):
                def f(self, *args):
                    rec(self.name, fname, 'start', threading.current_thread().name)
                    rec(self.name, fname, 'end', threading.current_thread().name, 'ok')
                    return args[0] if args else 1
                return f
            pns = {'__module__': __name__, 'enablePoll': False,
                   'w0': Parameter('written at start-up', IntRange(), default=0, readonly=False),
                   'write_w0': p_rec('write_w0'), 'read_w0': p_rec('read_w0'),
                   'read_value': (lambda self, f=p_rec('read_value'): float(f(self))),
                   'doPoll': (lambda self, f=p_rec('doPoll'): f(self) and None)}
            if shared:
                pns['io'] = Attached()
            Passive = type('PassiveMod', (Readable,), pns)
            classes.append(Passive)
            cfg['pz'] = {'cls': Passive, 'description': 'not polled', 'w0': {'value': 5}}
            if shared:
                cfg['pz']['io'] = 'io'
            sim.count('c13.unpolled-module')
        srv = world.make_server('n', cfg)
        srv._processCfg()
        ctx['started'] = sim.vnow()
        mods = [srv.secnode.modules[s['name']] for s in shape['mods']]
        owner = srv.secnode.modules['io'] if shared else None
        t0 = sim.vnow()
        todo = []
        for op in case['ops']:
            todo.append(op)
            if op.get('then'):
                todo.append(dict(op['then'], t=op['t'], m=op['m'], second=True))
        for op in todo:
            if op['m'] >= len(mods):
                continue
            dt = t0 + op['t'] - sim.vnow()
            if dt > 0:
                time.sleep(dt)
            elif op.get('second'):
                sim.count('c13.back-to-back-requests')
                sim.yield_point()
            mod = mods[op['m']]
            kind = op['kind']
            t_before = sim.vnow()
            pi_before = mod.pollinterval
            if kind == 'interval':
                mod.pollinterval = op['v']
                sim.count('c13.interval-change')
            elif kind == 'fast_on':
                mod.setFastPoll(True, op['v'])
                sim.count('c13.fast-poll')
            elif kind == 'fast_off':
                mod.setFastPoll(False)
                sim.count('c13.fast-poll')
            elif kind == 'trigger':
                if mod.pollInfo:
                    mod.pollInfo.trigger(True)
                    sim.count('c13.trigger')
            elif kind == 'jump':
                sim.jump(op['v'])
                sim.count('clock.jump')
            elif kind == 'nopoll_read':
                names = shape['mods'][op['m']]['nopoll']
                if names:
                    try:
                        getattr(mod, 'read_' + names[0])()
                    except Exception:   # noqa
                        pass
            oplog.append((sim.vnow(), sim.next_seq(), op['m'], kind, op.get('v'),
                          mod.pollinterval, t_before, pi_before))
        left = t0 + shape['horizon'] - sim.vnow()
        if left > 0:
            time.sleep(left)
        ctx['end'] = sim.vnow()
        pollers = []
        for m in ([owner] if shared else mods):
            th = getattr(m, '_Module__poller', None)
            pollers.append((m.name, th is not None and th.is_alive()))
        ctx['pollers'] = pollers
        ctx['polled'] = [bool(m.pollInfo) for m in mods]
        srv.secnode.shutdown_modules()

    # ------------------------------------------------------------------ oracle
    def nontrivial(self, sim, case, ctx):
        n = sum(1 for e in ctx.get('log', ()) if e[3] == 'doPoll' and e[4] == 'start')
        return n >= 3 and sim.nchoice2 >= 1

    def observation(self, sim, case, ctx):
        return ctx.get('log'), ctx.get('oplog')

    def judge(self, sim, case, ctx):
        shape = case['shape']
        specs = shape['mods']
        log = ctx['log']
        res = []
        end = ctx['end']
        for e in log:
            if e[5] and 'pollThread' in e[5]:
                if e[4] == 'end' and e[6] != 'ok':
                    sim.counters['c13.failing-poll'] = sim.counters.get('c13.failing-poll', 0) + 1
                if e[4] == 'end' and e[6] == 'comfail' and e[0] < ctx['started']:
                    sim.counters['c13.comfail-at-startup'] = sim.counters.get('c13.comfail-at-startup', 0) + 1
        # the sweep of the (shared) thread; with stand-alone threads each module has its own
        def maxdur(spec, fn):
            return max(d for d, _ in spec['scripts'][fn])

        def main_cost(spec):
            c = maxdur(spec, 'doPoll')
            if spec['poll_reads_value']:
                c += maxdur(spec, 'read_value') + maxdur(spec, 'read_status')
            return c

        def slow_cost(spec):
            names = ['read_value', 'read_status'] + ['read_' + p for p in spec['polled']]
            return max(maxdur(spec, n) for n in names)
        group = specs if specs[0]['shared'] else None
        # a clock jump is a suspended machine: all bounds are evaluated on the time axis with
        # the jumps cut out (after a jump everything is due at once, i.e. never later)
        jumps = sorted((t, v) for (t, _s, _m, kind, v, _pi, _tb, _pb) in ctx['oplog'] if kind == 'jump')

        def adj(t):
            return t - sum(v for (tj, v) in jumps if tj <= t + 1e-9)
        log = [(adj(e[0]),) + tuple(e[1:]) for e in log]
        oplog = [(adj(o[0]),) + tuple(o[1:6]) + (adj(o[6]), o[7]) for o in ctx['oplog']]
        end = adj(ctx['end'])
        started = adj(ctx['started'])
        # thread alive
        for name, alive in ctx['pollers']:
            if not alive:
                res.append(Violation('C13.thread-dead', 'poller', f'poll thread of {name} not alive at t={end:.3f}'))
        for mi, spec in enumerate(specs):
            members = group if group else [spec]
            sweep = sum(main_cost(s) for s in members) + max(slow_cost(s) for s in members) + EPS
            mname = spec['name']
            polls = [e[0] for e in log if e[2] == mname and e[3] == 'doPoll' and e[4] == 'start']
            # interval in force as a step function of time, mirroring the documented semantics
            # (pollinterval changes are ignored while fast polling is on).  While an operation is
            # in progress the larger of old and new interval is assumed.
            segs = [(0.0, spec['interval'])]
            fast = False
            for (t, _s, m, kind, v, pi, tb, pb) in oplog:
                if m != mi:
                    continue
                old = segs[-1][1]
                new = None
                if kind == 'interval' and not fast:
                    new = v
                elif kind == 'fast_on':
                    fast = True
                    new = v
                elif kind == 'fast_off':
                    fast = False
                    new = pi
                if new is not None:
                    segs.append((tb if new > old else t, new))
            # (start, end) of each immediate-trigger request; a poll starting after <start> may serve it
            triggers = [(tb, t) for (t, _s, m, kind, _v, _pi, tb, _pb) in oplog if m == mi and kind == 'trigger']

            def must_start_by(t_prev):
                """t_prev: start of the previous main poll.  The poll is 'due' at t when
                t - t_prev >= I(t) or an immediate trigger was posted in (t_prev, t].  A thread that
                evaluates dueness at least once per sweep must start the poll before the end of the
                first window of length sweep during which the poll was due all the time."""
                trig = min((t for (tb, t) in triggers if tb > t_prev), default=float('inf'))
                d = None
                for k, (ts, iv) in enumerate(segs):
                    te = segs[k + 1][0] if k + 1 < len(segs) else float('inf')
                    if te <= t_prev:
                        continue
                    ts = max(ts, t_prev)
                    due_from = min(max(ts, t_prev + iv), max(ts, trig))
                    if due_from >= te:
                        d = None
                        continue
                    if d is None or due_from > ts:
                        d = due_from
                    if te - d >= sweep:
                        return d + sweep
                return float('inf')
            if not polls:
                if end - started > max(iv for _, iv in segs) + sweep:
                    res.append(Violation('C13.never-polled', 'main', f'{mname} never polled until t={end:.3f}'))
                continue
            for a, b in zip(polls, polls[1:] + [None]):
                limit = must_start_by(a)
                nxt = b if b is not None else end
                if nxt > limit:
                    res.append(Violation(
                        'C13.main-gap', 'late' if b is not None else 'starved',
                        f'{mname}: main poll at t={a:.4f}, next at {b if b is None else round(b, 4)} '
                        f'(end {end:.3f}) but must start by {limit:.4f} (sweep {sweep:.4f}; clock jumps cut out)'))
                    break
            # slow polls: every polled parameter is read again within the loose bound
            npolled = sum(2 + len(s['polled']) for s in members)
            bound = 3 * spec['slow'] + (npolled + 1) * sweep
            for pname in ['value', 'status'] + spec['polled']:
                reads = [e[0] for e in log if e[2] == mname and e[3] == 'read_' + pname and e[4] == 'start']
                pts = [started] + [t for t in reads if t >= started] + [end]
                for a, b in zip(pts, pts[1:]):
                    if b - a > bound:
                        res.append(Violation('C13.slow-gap', 'starved',
                                             f'{mname}.{pname}: no read between t={a:.3f} and t={b:.3f}, '
                                             f'bound {bound:.3f}'))
                        break
            # nopoll parameters are never read by the poll task
            for pname in spec['nopoll']:
                bad = [e for e in log if e[2] == mname and e[3] == 'read_' + pname and 'pollThread' in (e[5] or '')]
                if bad:
                    res.append(Violation('C13.nopoll-read', 'poller', f'{mname}.read_{pname} called by the poller '
                                                                      f'at t={bad[0][0]:.3f}'))
        # a module with enablePoll = False is never polled: neither its doPoll nor any of its read functions
        bad = [e for e in log if e[2] == 'pz' and (e[3] == 'doPoll' or e[3].startswith('read_')) and 'pollThread' in (e[5] or '')]
        if bad:
            res.append(Violation('C13.nopoll-read', 'unpolled-module',
                                 f'module pz has enablePoll = False, but the poller called pz.{bad[0][3]} at t={bad[0][0]:.3f} '
                                 f'({len(bad)} calls)'))
        return res


CHECK = C13()
