"""C07 -- one well-formed reply per request line, for any bytes and any chunking

Real TCPRequestHandler / RequestHandler.handle / Dispatcher.handle_request on a
simulated stream socket.  Request-line sequences come from a SECoP grammar and
are mutated at byte level; the byte stream is cut into segments at generated
positions (plus the network's own segmentation and latency), with receive
time-outs between segments; a second connection (optionally activated, so that
updates and log messages are written concurrently with replies) watches for
leaks.  A reference node in the same run answers the unmutated valid lines.
"""
import json
import threading
import time

from sim import dtgen, env, genmod, nodeworld, wire
from sim.harness import Check, Violation

from frappy.protocol.interface import decode_msg, encode_msg_frame

VALID_ACTIONS = ('describe', 'activate', 'deactivate', 'do', 'change', 'read', 'ping', 'help', 'logging')


def gen_line(rng, specs, tok):
    """one valid-grammar request line (str, without newline)"""
    mods = [s['name'] for s in specs]
    m = rng.choice(mods)
    spec = next(s for s in specs if s['name'] == m)
    params = [p for p in spec['params'] if p.get('export', True)]
    p = rng.choice(params)
    exp = p['name'] if p['name'] in ('value', 'status', 'target', 'pollinterval') else '_' + p['name']
    r = rng.random()
    if r < 0.08:
        return '*IDN?'
    if r < 0.14:
        return rng.choice(['describe', 'describe .', f'describe {m}', f'describe {m}:{exp}'])
    if r < 0.24:
        return rng.choice(['activate', f'activate {m}', f'activate {m}:{exp}'])
    if r < 0.32:
        return rng.choice(['deactivate', f'deactivate {m}', f'deactivate {m}:{exp}'])
    if r < 0.47:
        return rng.choice([f'read {m}:{exp}', f'read {m}:{exp}', f'read {m}', f'read {m}:nix', 'read nomod:value'])
    if r < 0.67:
        payload = rng.choice(dtgen.boundary_payloads(rng, p['di'], 2))
        return f'change {m}:{exp} {json.dumps(payload)}'
    if r < 0.75:
        cmds = spec.get('cmds') or []
        if cmds:
            c = rng.choice(cmds)
            arg = '' if not c.get('arg') else ' ' + json.dumps(dtgen.valid_wire(rng, c['arg']))
            return f'do {m}:_{c["name"]}{arg}'
        return f'do {m}:stop'
    if r < 0.85:
        return rng.choice([f'ping tok{tok}', 'ping', f'ping tok{tok} 1'])
    if r < 0.9:
        return rng.choice(['help', '', '   '])
    if r < 0.95:
        return rng.choice([f'logging {m} "debug"', 'logging . "off"', f'logging {m} "nolevel"', 'logging nomod "info"',
                           f'logging {m} "error"'])
    return rng.choice(['foo', 'foo bar 1', 'request x 1', '_ident', 'handle_read x', 'help x', 'describe x y',
                       'error_read m0:value ["x", "y", {}]', 'changed m0:value [1, {}]', 'shutdown', 'restart'])


def mutate(rng, line):
    b = bytearray(line.encode('utf-8'))
    kind = rng.choice(['flip', 'ff', 'del', 'cr', 'nul', 'space', 'trunc', 'nan', 'deep', 'long', 'utf8cut', 'tab',
                       'inf', 'dupfield', 'quote'])
    if kind == 'flip' and b:
        i = rng.randrange(len(b))
        b[i] ^= 1 << rng.randrange(8)
        if b[i] == 10:
            b[i] = 11
    elif kind == 'ff':
        b.insert(rng.randrange(len(b) + 1), rng.choice([0xff, 0xc3, 0x80, 0xfe]))
    elif kind == 'del' and b:
        del b[rng.randrange(len(b))]
    elif kind == 'cr':
        b += b'\r'
    elif kind == 'nul':
        b.insert(rng.randrange(len(b) + 1), 0)
    elif kind == 'space':
        b = bytearray(bytes(b).replace(b' ', b'  ', 1)) if rng.random() < 0.5 else bytearray(b' ' + bytes(b) + b' ')
    elif kind == 'trunc' and b:
        b = b[:rng.randrange(len(b))]
    elif kind == 'nan':
        parts = bytes(b).split(b' ', 2)
        b = bytearray(b' '.join(parts[:2] + [rng.choice([b'NaN', b'Infinity', b'-Infinity', b'[NaN]'])]))
    elif kind == 'inf':
        parts = bytes(b).split(b' ', 2)
        b = bytearray(b' '.join(parts[:2] + [rng.choice([b'1e999', b'-1e999', b'1' + b'0' * 400])]))
    elif kind == 'deep':
        n = rng.choice([50, 1200, 30000])
        parts = bytes(b).split(b' ', 2)
        b = bytearray(b' '.join(parts[:2] + [b'[' * n + b']' * n]))
    elif kind == 'long':
        b += b' ' + b'"' + b'x' * rng.choice([2000, 9000, 70000]) + b'"'
    elif kind == 'utf8cut':
        b += 'ä€'.encode()[:rng.choice([1, 3, 4])]
    elif kind == 'tab':
        b = bytearray(bytes(b).replace(b' ', b'\t', 1))
    elif kind == 'dupfield':
        b += b' 1 2'
    elif kind == 'quote':
        b += b' "unterminated'
    return bytes(b).replace(b'\n', b'\x0b')


def expected_reply(raw):
    """what the oracle can say about the reply to a request line (bytes without newline)"""
    stripped = raw.strip()
    if stripped == b'':
        return {'kind': 'help'}
    try:
        text = stripped.decode('utf-8')
    except UnicodeDecodeError:
        return {'kind': 'undecodable'}
    parts = text.split(' ', 2)
    action = parts[0]
    spec = (parts[1] if len(parts) > 1 else '') or None
    data_text = parts[2] if len(parts) > 2 else ''
    if data_text != '':
        try:
            json.loads(data_text)
        except (ValueError, RecursionError):
            return {'kind': 'undecodable'}
    return {'kind': 'decodable', 'action': action, 'spec': spec}


class C07(Check):
    ID = 'C07'
    TRACE_FILES = ('protocol/interface/tcp.py', 'protocol/interface/handler.py')
    TIERS = {'quick': {'runs': 3000, 'wall': 75}, 'thorough': {'runs': 300000, 'wall': 800}}
    RUN_WALL = 90
    RULE = ('case = generated node (1..2 modules, parameters over all datatypes, commands) + a sequence of <= 30 request '
            'lines from a SECoP grammar, each mutated at byte level with probability p (invalid UTF-8, broken/huge/deep '
            'JSON, NaN/Infinity tokens, CR, NUL, tabs, truncation, very long lines, unknown and handler-colliding '
            'actions) + explicit cut positions of the byte stream + network segmentation/latency + an optional '
            'second (activated / logging) connection and poll threads writing concurrently; distinct = different '
            '(case digest, schedule digest); non-trivial = >= 3 request lines of which >= 1 is mutated or cut inside')
    REAL = ['frappy.protocol.interface.tcp.TCPRequestHandler (receive/ingest/next_message/send_reply)',
            'frappy.protocol.interface.handler.RequestHandler.handle', 'frappy.protocol.interface (codec)',
            'frappy.protocol.dispatcher.Dispatcher.handle_request and all handle_* methods',
            'frappy modules behind it (generated classes, real wrappers)']
    STUB = ['TCP sockets (sim.net)', 'socketserver accept loop', 'hardware (fake driver)', 'clock']
    ASSUMPTIONS = ['for request lines that do not decode (invalid UTF-8 / JSON) only "exactly one error_* reply" is '
                   'required; action and specifier echo are required for decodable lines',
                   'reference answers come from an identical second node in the same run that receives only the '
                   'unmutated lines; compared only when every mutated line was answered with an error report and '
                   'polling is off (timestamps masked)']
    PROBES = ('c07.invalid-utf8', 'c07.bad-json', 'c07.cut-inside-line', 'c07.recv-timeout-inside-line',
              'c07.concurrent-updates', 'c07.long-line', 'c07.reference-compared', 'c07.churn-connection',
              'c07.stalled-reader')

    def gen_case(self, rng, tier):
        specs = [genmod.gen_module_spec(rng, f'm{i}', depth=rng.choice([1, 2]), full=True)
                 for i in range(rng.choice([1, 2]))]
        poll = rng.random() < 0.5
        for s in specs:
            s['enablePoll'] = poll
            s['pollinterval'] = rng.choice([0.1, 0.5])
            s['slowinterval'] = rng.choice([0.1, 0.5])
            for p in s['params']:
                p['export'] = True if p.get('export') is False else p.get('export', True)
        scripts = {}
        for s in specs:
            for p in s['params']:
                if p.get('read') and p['di']['type'] in ('int', 'double') and poll and rng.random() < 0.5:
                    scripts[f'{s["name"]}.read_{p["name"]}'] = [[0, 'ok'], [0.01, 'secop'], [0, 'ok']]
        n = rng.randrange(1, 31 if tier == 'thorough' else 16)
        pm = rng.choice([0.0, 0.15, 0.4, 0.8])
        ops = []
        for i in range(n):
            line = gen_line(rng, specs, i)
            if rng.random() < pm:
                raw = mutate(rng, line)
                ops.append({'raw': raw.decode('latin-1'), 'mutated': True})
            else:
                ops.append({'raw': line.encode('utf-8').decode('latin-1'), 'mutated': False})
        shape = {'p_switch': rng.choice([0.1, 0.3, 0.6]), 'line_gaps': rng.choice([0, 0, 0, 10, 14]),
                 'seg_bias': rng.choice([1.0, 0.7, 0.2]), 'lat_bias': rng.choice([1.0, 0.7, 0.4]),
                 'specs': specs, 'scripts': scripts, 'poll': poll,
                 'cuts': sorted(rng.sample(range(1, 4000), rng.choice([0, 0, 1, 3, 8, 30]))),
                 'cut_gap': rng.choice([0, 0.01, 1.5, 3.2]),
                 'second': rng.choice([None, 'idle', 'activated', 'logging']),
                 'stalled': rng.choice([None] * 6 + [40, 200]),
                 # further connections which activate and leave again while the requests are being handled
                 'churn': [[rng.choice([0, 0, 0.001, 0.01, 0.1]), rng.choice([0, 0, 0.001, 0.01])]
                           for _ in range(rng.choice([0, 0, 1, 3, 6]))],
                 'eol': rng.choice(['\n', '\n', '\r\n'])}
        return {'shape': shape, 'ops': ops}

    def shrink_candidates(self, case):
        sh = case['shape']
        if sh['cuts']:
            yield dict(case, shape=dict(sh, cuts=[]))
            if len(sh['cuts']) > 1:
                yield dict(case, shape=dict(sh, cuts=sh['cuts'][:len(sh['cuts']) // 2]))
        if sh['second']:
            yield dict(case, shape=dict(sh, second=None))
        if sh.get('churn'):
            yield dict(case, shape=dict(sh, churn=[]))
            yield dict(case, shape=dict(sh, churn=sh['churn'][:1]))
        if sh['line_gaps']:
            yield dict(case, shape=dict(sh, line_gaps=0))
        if sh['seg_bias'] < 1 or sh['lat_bias'] < 1:
            yield dict(case, shape=dict(sh, seg_bias=1.0, lat_bias=1.0))
        if len(sh['specs']) > 1:
            yield dict(case, shape=dict(sh, specs=sh['specs'][:1]))
        if sh['eol'] != '\n':
            yield dict(case, shape=dict(sh, eol='\n'))

    # ------------------------------------------------------------------ run
    def main(self, sim, case, ctx):
        shape = case['shape']
        world = ctx['world'] = env.World(sim, shape['seg_bias'], shape['lat_bias'])
        drv = genmod.Driver(sim, shape['scripts'])
        node = nodeworld.Node(world, 'n', shape['specs'], drv, port=10767)
        drv2 = genmod.Driver(sim, shape['scripts'])
        ref = nodeworld.Node(world, 'n', shape['specs'], drv2, port=10768)
        ctx['cleanup'] = [node.forget, ref.forget]
        eol = shape['eol'].encode()
        raws = [o['raw'].encode('latin-1') for o in case['ops']]
        stream = b''.join(r + eol for r in raws)
        ctx['nreq'] = stream.count(b'\n')
        second = None
        if shape['second']:
            second = nodeworld.RawClient(world, 10767)
            ctx['second_requests'] = 0
            if shape['second'] == 'activated':
                second.request('activate')
                ctx['second_requests'] = 1
            elif shape['second'] == 'logging':
                second.request('logging . "debug"')
                ctx['second_requests'] = 1
        if shape.get('stalled'):
            # a peer which asks for events and never reads: its socket buffers fill up, the node must give it up
            # (send time-out) instead of waiting for it with the dispatcher lock held
            sim.count('c07.stalled-reader')
            st = nodeworld.RawClient(world, 10767)
            world.handlers[st.hidx]['sock'].peer.rcvbuf = shape['stalled']
            st.send(b'activate\n' * 3)
            ctx['stalled_client'] = st
        cl = nodeworld.RawClient(world, 10767)
        ctx['client'] = cl
        ctx['second'] = second
        def churner():
            for before, stay in shape.get('churn') or ():
                if before:
                    time.sleep(before)
                else:
                    sim.yield_point()
                c3 = nodeworld.RawClient(world, 10767)
                c3.request('activate', timeout=30)
                if stay:
                    time.sleep(stay)
                else:
                    sim.yield_point()
                c3.close()
                sim.count('c07.churn-connection')
        chth = None
        if shape.get('churn'):
            import threading
            chth = threading.Thread(target=churner, name='churner')
            chth.start()
        pos = 0
        cuts = [c for c in shape['cuts'] if c < len(stream)] + [len(stream)]
        for c in cuts:
            if c > pos:
                cl.send(stream[pos:c])
                if c < len(stream) and stream[c - 1:c] != b'\n':
                    sim.count('c07.cut-inside-line')
                    if shape['cut_gap'] > 1:
                        sim.count('c07.recv-timeout-inside-line')
                pos = c
                if shape['cut_gap']:
                    time.sleep(shape['cut_gap'])
        ok = cl.wait_reply(0, timeout=120, count=ctx['nreq'])
        ctx['all_replied'] = ok
        if chth is not None:
            chth.join()
        cl.drain(quiet=1.5, maxtime=10)
        # the handler must still be alive and answering
        hrec = world.handlers[cl.hidx]
        ctx['handler_done_before_ping'] = hrec['done']
        r = cl.request('ping final', timeout=30)
        ctx['final_ping'] = None if r is None else r[2].raw
        if second is not None:
            second.drain(quiet=0.5, maxtime=5)
            r2 = second.request('ping second', timeout=30)
            ctx['second_ping'] = None if r2 is None else r2[2].raw
        # reference: the unmutated lines only, in one piece, on the second node
        refcl = nodeworld.RawClient(world, 10768)
        ref_lines = [r for r, o in zip(raws, case['ops']) if not o['mutated']]
        for r in ref_lines:
            refcl.send(r + b'\n')
        refcl.wait_reply(0, timeout=120, count=len(ref_lines))
        refcl.drain(quiet=1.0, maxtime=5)
        ctx['ref'] = refcl
        ctx['log_errors'] = [r for r in world.logrecords if r[0] == 'ERROR' and 'Traceback' in r[2]][:3]
        node.shutdown()
        ref.shutdown()

    # ------------------------------------------------------------------ oracle
    def observation(self, sim, case, ctx):
        cl = ctx.get('client')
        return [ln.raw for _s, _t, ln in cl.lines] if cl else None

    def nontrivial(self, sim, case, ctx):
        return len(case['ops']) >= 3 and (any(o['mutated'] for o in case['ops']) or
                                          sim.counters.get('c07.cut-inside-line', 0) > 0)

    def judge(self, sim, case, ctx):
        res = []
        shape = case['shape']
        cnt = sim.counters

        def bump(k):
            cnt[k] = cnt.get(k, 0) + 1
        cl = ctx['client']
        raws = [o['raw'].encode('latin-1') for o in case['ops']]
        eol = shape['eol'].encode()
        stream = b''.join(r + eol for r in raws)
        req_lines = stream.split(b'\n')[:-1]
        lines = [ln for _s, _t, ln in cl.lines]
        if any(r.strip().split(b' ')[0] in (b'update', b'log', b'_') for r in req_lines):
            # the error reply to such a request is indistinguishable from an asynchronous message
            return res
        if shape['second'] in ('activated',) and shape['poll']:
            bump('c07.concurrent-updates')
        # every line well-formed
        for ln in lines:
            if not ln.utf8:
                res.append(Violation('C07.line-not-utf8', ln.action[:20], f'{ln!r}'))
            elif not ln.json_ok:
                tok = 'nan-token' if any(t in ln.raw for t in (b'NaN', b'Infinity')) else 'json'
                res.append(Violation('C07.line-not-strict-json', tok, f'{ln!r}: {ln.problem}'))
        replies = [ln for ln in lines if not ln.is_async]
        if ctx['final_ping'] is None or not ctx['final_ping'].startswith(b'pong final'):
            done = ctx['handler_done_before_ping']
            res.append(Violation('C07.handler-dead' if done else 'C07.no-final-pong', 'final',
                                 f'after the request stream the connection does not answer a ping any more '
                                 f'(handler finished: {done}); replies so far {len(replies)} of {ctx["nreq"]}; '
                                 f'last lines {[l.raw[:80] for l in lines[-3:]]}; log {ctx["log_errors"]}'))
            return res
        replies = replies[:-1]     # without the final pong
        if len(replies) != len(req_lines):
            res.append(Violation('C07.reply-count', 'more' if len(replies) > len(req_lines) else 'less',
                                 f'{len(req_lines)} request lines, {len(replies)} reply lines: '
                                 f'requests {[r[:60] for r in req_lines][:12]} replies {[r.raw[:60] for r in replies][:12]}'))
            return res
        for raw, rep in zip(req_lines, replies):
            exp = expected_reply(raw)
            if len(raw) > 1500:
                bump('c07.long-line')
            if exp['kind'] == 'help':
                if rep.raw != b'helping':
                    res.append(Violation('C07.wrong-reply-action', 'help', f'blank line {raw!r} answered {rep!r}'))
                continue
            if exp['kind'] == 'undecodable':
                bump('c07.bad-json' if raw.strip().decode('latin-1').isascii() else 'c07.invalid-utf8')
                if not rep.action.startswith('error_') or not wire.is_error_report(rep.data) or \
                        rep.data[0] not in wire.ERROR_CLASSES:
                    res.append(Violation('C07.wrong-reply-action', 'undecodable',
                                         f'undecodable line {raw[:80]!r} answered {rep!r}'))
                continue
            action, spec = exp['action'], exp['spec']
            if action == '*IDN?':
                if not rep.is_ident:
                    res.append(Violation('C07.wrong-reply-action', 'idn', f'{raw[:80]!r} answered {rep!r}'))
                continue
            if action == 'help':
                if rep.raw != b'helping':
                    res.append(Violation('C07.wrong-reply-action', 'help', f'{raw[:80]!r} answered {rep!r}'))
                continue
            good = wire.REQUEST2REPLY.get(action)
            if rep.action == 'error_' + action:
                if not wire.is_error_report(rep.data) or rep.data[0] not in wire.ERROR_CLASSES:
                    res.append(Violation('C07.bad-error-report', action[:20], f'{raw[:80]!r} answered {rep!r}'))
                elif rep.spec != spec:
                    res.append(Violation('C07.specifier-not-echoed', 'error_' + action[:20],
                                         f'{raw[:80]!r} answered {rep!r}'))
                continue
            if good is None or rep.action != good:
                res.append(Violation('C07.wrong-reply-action', action[:20],
                                     f'{raw[:80]!r} answered {rep!r} (expected {good or "error_" + action})'))
                continue
            want_spec = spec
            if action == 'describe':
                want_spec = spec or '.'
            if rep.spec != want_spec:
                res.append(Violation('C07.specifier-not-echoed', action[:20], f'{raw[:80]!r} answered {rep!r}'))
        # codec inverse on every triple seen
        for ln in lines:
            if ln.utf8 and ln.json_ok and not ln.is_ident and ln.action:
                triple = (ln.action, ln.spec, ln.data)
                try:
                    back = decode_msg(encode_msg_frame(*triple))
                except Exception as e:   # noqa
                    back = repr(e)
                if back != triple and not (ln.has_data and ln.data is None):
                    res.append(Violation('C07.codec-not-inverse', ln.action[:20], f'{triple!r} -> {back!r}'))
                    break
        # the other connection got nothing it did not ask for
        second = ctx.get('second')
        if second is not None:
            extra = [ln for _s, _t, ln in second.lines if not ln.is_async]
            if len(extra) != ctx['second_requests'] + 1 or not (ctx.get('second_ping') or b'').startswith(b'pong second'):
                res.append(Violation('C07.leak-to-other-connection', 'reply',
                                     f'second connection made {ctx["second_requests"] + 1} requests but holds '
                                     f'{[l.raw[:80] for l in extra]}'))
            for _s, _t, ln in second.lines:
                if not ln.utf8 or not ln.json_ok:
                    res.append(Violation('C07.line-not-strict-json', 'other-connection', f'{ln!r}'))
                    break
        # answers to the unmutated lines are those of the unmutated stream
        if res or shape['poll']:
            return res
        mutated_ok = all(rep.action.startswith('error_') for o, rep in zip(case['ops'], replies) if o['mutated'])
        if mutated_ok and shape['eol'] == '\n':
            bump('c07.reference-compared')
            ref_replies = [ln for _s, _t, ln in ctx['ref'].lines if not ln.is_async]
            mine = [rep for o, rep in zip(case['ops'], replies) if not o['mutated']]
            if len(ref_replies) == len(mine):
                for a, b in zip(mine, ref_replies):
                    if mask(a) != mask(b):
                        res.append(Violation('C07.answer-changed-by-other-line', a.action[:20],
                                             f'with mutated lines in between: {a!r}; unmutated stream: {b!r}'))
                        break
        return res


def mask(ln):
    def m(x):
        if isinstance(x, dict):
            return {k: ('T' if k == 't' else m(v)) for k, v in x.items()}
        if isinstance(x, list):
            return [m(v) for v in x]
        return x
    return ln.action, ln.spec, m(ln.data)


CHECK = C07()
