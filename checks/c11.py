"""C11 -- client: every caller gets its own reply or an error, under all interleavings

The real SecopClient over the real AsynTcp talks to a scripted SECoP server
peer on the simulated network.  2..4 caller tasks issue requests (equal and
distinct keys, pings, reads, changes, unknown actions); every request carries
a unique id that the peer echoes, so attribution is unambiguous.  The peer
answers in scripted order and delay, interleaves updates, error replies,
unsolicited replies and garbage, and closes / resets / black-holes the
connection at scripted points, also simultaneously with a user disconnect().
"""
import threading
import time

from sim import env, kernel, peer as simpeer
from sim.harness import Check, Violation

from frappy.client import SecopClient
from frappy.errors import SECoPError

REPLY_TIMEOUT = 10.0
QUEUE_TIMEOUT = 3.0


class ListLogger:
    def __init__(self, sink, sim):
        self.sink = sink
        self.sim = sim

    def _log(self, level, fmt, *args, **kwds):
        if self.sim.finished:
            return
        try:
            msg = str(fmt) % args if args else str(fmt)
        except Exception:   # noqa
            msg = f'{fmt!r} {args!r}'
        self.sink.append((level, msg))

    def debug(self, *a, **k):
        pass

    def info(self, fmt, *a, **k):
        self._log('INFO', fmt, *a)

    def warning(self, fmt, *a, **k):
        self._log('WARNING', fmt, *a)

    def error(self, fmt, *a, **k):
        self._log('ERROR', fmt, *a)

    exception = critical = error


class C11(Check):
    ID = 'C11'
    TRACE_FILES = ('client/__init__.py',)
    TIERS = {'quick': {'runs': 20000, 'wall': 100}, 'thorough': {'runs': 400000, 'wall': 840}}
    RULE = ('[a third of the cases: the peer takes only 12 or 24 bytes at a time; replies written in two pieces; shutdown() of a reset socket fails with ENOTCONN] ' '[a fifth of the cases are focus cases: same key, same instant, immediate replies, streaming peer] ' 'case = 2..4 caller tasks x <= 6 requests each (equal/distinct keys, ping/read/change/unknown actions, '
            'unique id per request) + peer reply script (order, delays up to beyond the 10 s time-out, error replies, '
            'interleaved updates, unsolicited replies, garbage, half lines) + <= 3 faults (peer close/reset/black hole '
            'before, between and inside exchanges, refused reconnects, user disconnect at any time, also '
            'simultaneously); distinct = different (case digest, schedule digest); non-trivial = >= 2 callers had '
            'requests outstanding at the same time and >= 1 scheduling decision among >= 2 runnable tasks')
    REAL = ['frappy.client.SecopClient (connect, request/queue_request/get_reply, __txthread, __rxthread, _reconnect, '
            'disconnect)', 'frappy.lib.asynconn.AsynTcp/AsynConn (readline, recv, send, shutdown, disconnect)',
            'frappy.protocol.interface codec']
    STUB = ['SECoP server (scripted peer sim.peer.Peer)', 'TCP (sim.net)', 'clock', 'threading primitives']
    ASSUMPTIONS = ['a reply the peer sends after the owner of the request gave up (time-out) may legitimately be taken '
                   'for the next request with the same key (SECoP has no request ids): such deliveries are exempt',
                   'overlong-wait bound: 10 s reply time-out + 3 s queue time-out + 2 s; in runs with connection '
                   'faults additionally 31 s for a reconnect holding the client lock',
                   'not-released bound: loss visible at the client socket + 1 s receive time-out + 2 s']
    PROBES = ('c11.same-key-concurrent', 'peer.error-update', 'c11.small-peer-buffer', 'peer.streamed-update', 'c11.timeout', 'c11.late-reply', 'fault.peer-close', 'fault.peer-reset',
              'fault.peer-blackhole', 'c11.user-disconnect', 'c11.disconnect-during-loss', 'c11.reconnect',
              'c11.request-parked')

    def gen_case(self, rng, tier):
        ncallers = rng.choice([2, 3, 3, 4])
        ops = []
        keys = ['x', 'y', None]
        for t in range(ncallers):
            for _ in range(rng.randrange(1, 7)):
                kind = rng.choice(['ping', 'ping', 'ping', 'read', 'change', 'foo'])
                op = {'task': t, 'kind': kind, 'dt': rng.choice([0, 0, 0, 0.001, 0.05, 0.5, 2.0])}
                if kind == 'ping':
                    op['key'] = rng.choice(keys if rng.random() < 0.8 else ['x'])
                elif kind in ('read', 'change'):
                    op['key'] = rng.choice(['m:_p0', 'm:_p0', 'm:_p1'])
                else:
                    op['key'] = rng.choice(['x', None])
                ops.append(op)
        rng.shuffle(ops)
        faulty = rng.random() < 0.55
        replies = []
        for _ in range(rng.randrange(1, 8)):
            kind = rng.choice(['ok', 'ok', 'ok', 'ok', 'error', 'unsolicited', 'garbage', 'split'] +
                              (['none', 'midline'] if faulty else []))
            step = {'kind': kind, 'delay': rng.choice([0, 0, 0.001, 0.01, 0.3, 1.2, 4.0] + ([11.0, 14.0] if faulty else []))}
            if kind == 'split':
                step['gap'] = rng.choice([0.2, 0.9, 1.05, 1.5, 2.5])
                step['frac'] = rng.choice([0.1, 0.5, 0.9])
            if rng.random() < 0.3:
                step['updates_before'] = [rng.choice([rng.randrange(100), 'err'])]
            if rng.random() < 0.3:
                step['updates_after'] = [rng.choice([rng.randrange(100), 'err'])]
            if faulty and rng.random() < 0.15:
                step['faults'] = [{'delay': rng.choice([0, 0, 0.01, 0.5]),
                                   'fault': rng.choice([['close'], ['reset'], ['blackhole'], ['refuse', rng.randrange(1, 4)]])}]
            replies.append(step)
        faults = []
        if faulty:
            for _ in range(rng.randrange(0, 3)):
                faults.append({'t': round(rng.random() * 6, 3),
                               'fault': rng.choice([['close'], ['reset'], ['blackhole'], ['refuse', rng.randrange(1, 4)]])})
        shape = {'p_switch': rng.choice([0.1, 0.3, 0.6]), 'line_gaps': rng.choice([0, 0, 8, 12, 15]),
                 'seg_bias': rng.choice([1.0, 0.7, 0.3]), 'lat_bias': rng.choice([1.0, 0.8, 0.5]),
                 'activate': rng.random() < 0.6, 'ncallers': ncallers, 'replies': replies,
                 # an active node streaming updates: the connection is never idle (no rescue by the heartbeat ping)
                 'stream': rng.choice([None, 0.4, 1.5]),
                 'user_disconnect': round(rng.random() * 6, 3) if rng.random() < (0.5 if faulty else 0.25) else None,
                 'faulty': faulty, 'peer_rcvbuf': rng.choice([None, None, 12, 24])}
        if rng.random() < 0.2:
            # focus: a few requests with one and the same key at (nearly) the same instant, immediate replies,
            # nothing afterwards which could hide a parked request that is never transmitted, and an active
            # node streaming updates (so the heartbeat ping never comes to the rescue)
            kind = rng.choice(['ping', 'ping', 'read'])
            key = 'x' if kind == 'ping' else 'm:_p0'
            ops = [{'task': t, 'kind': kind, 'dt': rng.choice([0, 0, 0, 0.001]), 'key': key}
                   for t in range(ncallers) for _ in range(rng.choice([1, 1, 2]))]
            rng.shuffle(ops)
            shape.update(replies=[{'kind': 'ok', 'delay': rng.choice([0, 0, 0.001, 0.01])}
                                  for _ in range(rng.randrange(1, 4))],
                         activate=True, stream=rng.choice([0.4, 1.5]), user_disconnect=None, faulty=False, focus=True)
            faults = []
        elif rng.random() < 0.15:
            # focus: requests with one key at the same instant (all but the first are parked), the reply to the first
            # arrives just when the user shuts the connection down: the parked ones must be released at once
            kind = rng.choice(['ping', 'read', 'change'])
            key = 'x' if kind == 'ping' else 'm:_p0'
            delay = rng.choice([0.01, 0.05, 0.3])
            ops = [{'task': t, 'kind': kind, 'dt': rng.choice([0, 0, 0.001]), 'key': key} for t in range(ncallers)]
            shape.update(replies=[{'kind': 'ok', 'delay': delay}], activate=rng.random() < 0.5, stream=None,
                         user_disconnect=round(delay + rng.choice([-0.002, -0.0005, 0, 0.0002, 0.001, 0.005]), 4),
                         faulty=False, focus='disconnect', line_gaps=rng.choice([0, 3, 5, 8]))
            faults = []
        elif rng.random() < 0.12:
            # focus: a request which is answered too late times out after 10 s - the rx thread then removes its entry at its
            # next wake-up, while the other callers keep the tx thread busy entering new requests
            ops = [{'task': 0, 'kind': 'ping', 'dt': 0, 'key': 'x'}]
            for t in range(1, ncallers):
                # (back to back: the exchange with the peer never pauses around the moment of the time-out)
                ops.append({'task': t, 'kind': rng.choice(['ping', 'read']), 'dt': round(9.97 + rng.random() * 0.02, 4),
                            'key': None})
                for _ in range(rng.randrange(10, 20)):
                    ops.append({'task': t, 'kind': rng.choice(['ping', 'read']), 'dt': rng.choice([0, 0, 0, 0.001]),
                                'key': None})
            for k, op in enumerate(ops[1:]):
                op['key'] = rng.choice(['y', 'z', None, f'k{k}']) if op['kind'] == 'ping' else rng.choice(['m:_p0', 'm:_p1'])
            shape.update(replies=[{'kind': 'ok', 'delay': 12.5}] + [{'kind': 'ok', 'delay': 0}] * 40,
                         activate=rng.random() < 0.5, stream=None, user_disconnect=None, faulty=False, focus='cleanup',
                         line_gaps=rng.choice([3, 5, 8, 12]))
            faults = []
        return {'shape': shape, 'ops': ops, 'faults': faults}

    def shrink_candidates(self, case):
        sh = case['shape']
        if sh['line_gaps']:
            yield dict(case, shape=dict(sh, line_gaps=0))
        if sh['seg_bias'] < 1 or sh['lat_bias'] < 1:
            yield dict(case, shape=dict(sh, seg_bias=1.0, lat_bias=1.0))
        if sh['user_disconnect'] is not None:
            yield dict(case, shape=dict(sh, user_disconnect=None))
        if len(sh['replies']) > 1:
            yield dict(case, shape=dict(sh, replies=sh['replies'][:1]))
            yield dict(case, shape=dict(sh, replies=[{'kind': 'ok', 'delay': 0}]))
        for i, st in enumerate(sh['replies']):
            if st.get('updates_before') or st.get('updates_after') or st.get('faults'):
                reps = list(sh['replies'])
                reps[i] = {'kind': st['kind'], 'delay': st['delay']}
                yield dict(case, shape=dict(sh, replies=reps))
        if sh['activate']:
            yield dict(case, shape=dict(sh, activate=False))

    # ------------------------------------------------------------------ run
    def main(self, sim, case, ctx):
        shape = case['shape']
        world = ctx['world'] = env.World(sim, shape['seg_bias'], shape['lat_bias'])
        plan = {'replies': shape['replies'], 'stream': shape.get('stream')}
        # the device takes only a few bytes at a time: requests longer than that need more than one send call
        world.net.accept_rcvbuf = shape.get('peer_rcvbuf')
        if shape.get('peer_rcvbuf'):
            sim.count('c11.small-peer-buffer')
        pr = ctx['peer'] = simpeer.Peer(world, plan)
        log = ctx['clientlog'] = []
        cl = SecopClient('tcp://simhost:10767', log=ListLogger(log, sim))
        cl.activate = shape['activate']
        ctx['client'] = cl
        unhandled = ctx['unhandled'] = []
        cl.register_callback(None, unhandledMessage=lambda a, i, d: unhandled.append((a, i)))
        try:
            cl.connect()
        except Exception as e:   # noqa
            ctx['connect_failed'] = repr(e)
            return
        t_start = sim.vnow()
        recs = ctx['calls'] = []
        uid = [0]
        dis = ctx['disconnects'] = []

        def caller(tid):
            for op in case['ops']:
                if op['task'] % shape['ncallers'] != tid:
                    continue
                if op['dt']:
                    time.sleep(op['dt'])
                uid[0] += 1
                u = uid[0]
                action = {'ping': 'ping', 'read': 'read', 'change': 'change', 'foo': 'foo'}[op['kind']]
                rec = {'task': tid, 'op': op, 'uid': u, 't0': sim.vnow(), 'seq0': sim.next_seq()}
                recs.append(rec)
                try:
                    r = cl.request(action, op['key'], u)
                    rec['result'] = ('ok', r[0], r[1], r[2])
                except BaseException as e:   # noqa
                    if isinstance(e, (kernel.SimAbort, kernel.SimCrash)):
                        raise
                    rec['result'] = ('exc', type(e).__name__, str(e)[:300],
                                     isinstance(e, SECoPError), isinstance(e, (ConnectionError, TimeoutError)))
                rec['t1'] = sim.vnow()
                rec['seq1'] = sim.next_seq()

        def faulter():
            for f in sorted(case.get('faults', ()), key=lambda f: f['t']):
                dt = t_start + f['t'] - sim.vnow()
                if dt > 0:
                    time.sleep(dt)
                live = [c for c in pr.conns if not c.closed]
                if f['fault'][0] == 'refuse':
                    pr.listener.refuse = f['fault'][1]
                    sim.count('fault.peer-refuse')
                elif live:
                    pr.schedule(live[-1], 0, tuple(f['fault']))

        def user():
            dt = t_start + shape['user_disconnect'] - sim.vnow()
            if dt > 0:
                time.sleep(dt)
            d = {'t0': sim.vnow(), 'seq0': sim.next_seq()}
            dis.append(d)
            sim.count('c11.user-disconnect')
            try:
                cl.disconnect()
                d['result'] = None
            except Exception as e:   # noqa
                import traceback
                d['result'] = (type(e).__name__, str(e)[:200], traceback.format_exc()[-600:])
            d['t1'] = sim.vnow()

        ths = [threading.Thread(target=caller, args=(i,), name=f'caller{i}') for i in range(shape['ncallers'])]
        extra = [threading.Thread(target=faulter, name='faulter')]
        if shape['user_disconnect'] is not None:
            extra.append(threading.Thread(target=user, name='user'))
        for t in ths + extra:
            t.start()
        for t in ths + extra:
            t.join()
        ctx['t_callers_done'] = sim.vnow()
        # final shutdown by the user
        d = {'t0': sim.vnow(), 'seq0': sim.next_seq(), 'final': True}
        dis.append(d)
        try:
            cl.disconnect()
            d['result'] = None
        except Exception as e:   # noqa
            import traceback
            d['result'] = (type(e).__name__, str(e)[:200], traceback.format_exc()[-600:])
        d['t1'] = sim.vnow()
        time.sleep(20)
        ctx['alive'] = sorted({t.name for t in sim.tasks if t.state != 'done' and 'frappy.client' in t.name})
        ctx['client_threads'] = [n for n in ('_rxthread', '_txthread', '_connthread') if getattr(cl, n, None) is not None
                                 and getattr(cl, n).is_alive()]
        ctx['t_end'] = sim.vnow()
        ctx['connect_log'] = list(world.net.connect_log)

    MAX_VIRTUAL = 3000

    def deadlock_is_violation(self, sim, case, ctx):
        """the run cannot end: every task blocked for ever, or the client spinning for ever"""
        kind = sim.failure[0]
        if kind == 'deadlock':
            waits = sim.failure[1]
            names = [n for n, _w in waits]
        else:
            waits = [(n, st, fr[-4:]) for n, st, fr in sim.failure[1]]
            names = [n for n, _st, _fr in waits]
        stuck = sorted({n.split(':')[-1].strip('_') for n in names if 'frappy.client' in n or n == 'user'})
        in_disconnect = any('disconnect' in str(w) for w in waits)
        mode = 'after-reconnect' if len(ctx['peer'].conns) > 1 else 'single-connection'
        rule = 'C11.disconnect-hangs' if in_disconnect or kind != 'deadlock' else 'C11.deadlock'
        return Violation(rule, f'{mode}|{",".join(stuck)}'[:90],
                         f'{kind}: the run cannot end; tasks: {waits}')

    # ------------------------------------------------------------------ oracle
    def observation(self, sim, case, ctx):
        return [(r['uid'], r.get('result')) for r in ctx.get('calls', ())], [r['line'] for r in ctx['peer'].requests]

    def nontrivial(self, sim, case, ctx):
        calls = [r for r in ctx.get('calls', ()) if 't1' in r]
        overlap = any(a['task'] != b['task'] and a['t0'] < b['t1'] and b['t0'] < a['t1']
                      for i, a in enumerate(calls) for b in calls[i + 1:])
        return overlap and sim.nchoice2 >= 1

    def judge(self, sim, case, ctx):
        res = []
        shape = case['shape']
        cnt = sim.counters

        def bump(k, n=1):
            cnt[k] = cnt.get(k, 0) + n
        if 'connect_failed' in ctx:
            return [Violation('C11.connect-failed', 'initial', ctx['connect_failed'])]
        pr = ctx['peer']
        calls = ctx['calls']
        if any('result' not in r for r in calls):
            return [Violation('C11.caller-stuck', 'caller', f'a caller never returned: '
                              f'{[r for r in calls if "result" not in r][:2]}')]
        by_uid = {r['uid']: r for r in calls}
        arrived = {}
        for q in pr.requests:
            if isinstance(q['data'], int):
                arrived.setdefault(q['data'], q)
        sent_for = {}
        for s in pr.sent:
            if s['n'] is not None:
                q = pr.requests[s['n']]
                if isinstance(q['data'], int):
                    sent_for.setdefault(q['data'], s)
        losses = [(t, why) for (t, _seq, _c, why) in pr.fault_log if why in ('peer-close', 'peer-reset', 'send-failed')]
        losses_conn = [(t, why, c) for (t, _seq, c, why) in pr.fault_log if why in ('peer-close', 'peer-reset', 'send-failed')]
        blackholes = [t for (t, _seq, _c, why) in pr.fault_log if why == 'blackhole']
        user_dis = [d for d in ctx['disconnects']]
        any_fault = bool(losses or blackholes or case.get('faults') or
                         any(st.get('faults') or st['kind'] in ('none', 'midline') for st in shape['replies']))
        # (the final disconnect is made when all callers have returned)
        t_final = min((d['t0'] for d in user_dis if d.get('final')), default=float('inf'))
        first_user = min((d['t0'] for d in user_dis if not d.get('final')), default=float('inf'))
        if len(pr.conns) > 1:
            bump('c11.reconnect')
        if any(d for d in user_dis if not d.get('final') and any(abs(d['t0'] - t) < 1.5 for t, _ in losses)):
            bump('c11.disconnect-during-loss')
        # same key concurrently?
        for i, a in enumerate(calls):
            for b in calls[i + 1:]:
                if a['task'] != b['task'] and a['op']['kind'] == b['op']['kind'] and a['op']['key'] == b['op']['key'] \
                        and a['t0'] < b['t1'] and b['t0'] < a['t1']:
                    bump('c11.same-key-concurrent')
                    break
        # a request which reached the peer only when the reply to an earlier request with the same key had been
        # sent, although it was issued before that, had been parked by the tx thread
        for r in calls:
            q = arrived.get(r['uid'])
            if q is None:
                continue
            for o in calls:
                so = sent_for.get(o['uid'])
                if o is not r and so is not None and o['op']['kind'] == r['op']['kind'] and \
                        o['op']['key'] == r['op']['key'] and o['seq0'] < r['seq0'] and r['t0'] <= so['t'] <= q['t'] \
                        and so['seq'] < q['seq']:
                    bump('c11.request-parked')
                    break
        delivered = {}

        def reply_uid(r):
            result = r['result']
            if result[0] == 'ok':
                try:
                    return result[3][1].get('uid')
                except Exception:   # noqa
                    return None
            if result[3]:     # SECoP error rebuilt from an error reply
                txt = result[2]
                if 'failed uid' in txt:
                    try:
                        return int(txt.split('failed uid')[1].split()[0].strip('"\'),'))
                    except ValueError:
                        return None
            return None

        def displaced_by_late(o, seen=()):
            """<o> was released with a reply which is not its own, and the root of that chain is the late reply
            to an abandoned request: then the reply to <o> itself is left over for the next request with the same
            key (SECoP has no request ids) - a consequence of the late reply, not a mix-up of the client"""
            g = reply_uid(o)
            if g is None or g == o['uid'] or o['uid'] in seen:
                return False
            w = by_uid.get(g)
            if w is None:
                return False
            sw = sent_for.get(g)
            if (sw is not None and sw['t'] > w['t1']) or (w['result'][0] == 'exc' and w['result'][1] == 'TimeoutError'):
                return True
            return displaced_by_late(w, seen + (o['uid'],))
        for r in calls:
            kind, result = r['result'][0], r['result']
            wait = r['t1'] - r['t0']
            got_uid = reply_uid(r)
            if got_uid is not None:
                owner = by_uid.get(got_uid)
                s = sent_for.get(got_uid)
                if got_uid != r['uid']:
                    # exempt: the reply was sent after its owner had given up
                    late = owner is not None and s is not None and s['t'] > owner['t1']
                    # an unknown action is matched with *any* unmatched reply (documented as experimental, one
                    # at a time): unsolicited replies of the peer make its attribution undefined
                    fuzzy = r['op']['kind'] == 'foo' and any(st['kind'] == 'unsolicited' for st in shape['replies'])
                    if r['op']['kind'] == 'foo' and any(o['result'][0] == 'exc' and o['result'][1] == 'TimeoutError'
                                                        for o in calls):
                        # all unknown actions share one table entry and take *any* unmatched reply: the late
                        # reply to an abandoned request (of any kind) is taken by one of them and shifts the rest
                        fuzzy = True
                    # the owner gave up (time-out): its abandoned table entry and this reply are unrelated to
                    # what the statement covers (SECoP has no request ids)
                    if owner is not None and owner['result'][0] == 'exc' and owner['result'][1] == 'TimeoutError':
                        late = True
                    if not late and owner is not None and displaced_by_late(owner):
                        late = True
                        bump('c11.late-reply-chain')
                    if late or fuzzy:
                        if late:
                            bump('c11.late-reply')
                    else:
                        res.append(Violation('C11.wrong-reply', f'{r["op"]["kind"]}',
                                             f'caller {r["task"]} request uid {r["uid"]} ({r["op"]}) got the reply to '
                                             f'uid {got_uid} ({owner and owner["op"]})'))
                if got_uid in delivered and delivered[got_uid] is not r:
                    res.append(Violation('C11.duplicate-delivery', r['op']['kind'],
                                         f'reply to uid {got_uid} handed to uid {delivered[got_uid]["uid"]} and to '
                                         f'uid {r["uid"]}'))
                delivered[got_uid] = r
            bound = REPLY_TIMEOUT + QUEUE_TIMEOUT + 2.0 + (31.0 if any_fault or first_user < r['t1'] else 0.0)
            if wait > bound:
                res.append(Violation('C11.overlong-wait', result[1] if kind == 'exc' else 'ok',
                                     f'caller {r["task"]} uid {r["uid"]} blocked {wait:.3f} s (bound {bound}) -> {result[:3]}'))
            if kind == 'exc':
                etype = result[1]
                if etype == 'TimeoutError':
                    bump('c11.timeout')
                    # was the peer reachable all the time?
                    disturbed = any(r['t0'] - 1 <= t <= r['t1'] for t, _ in losses) or \
                        any(t <= r['t1'] for t in blackholes) or first_user <= r['t1'] or \
                        any(c.lost_at is not None and c.lost_at <= r['t1'] and c.lost_at < t_final for c in pr.conns)
                    q = arrived.get(r['uid'])
                    # a same-key request that reached the peer, was not answered and whose caller gave up less
                    # than 2.5 s before this request started (the rx loop cleans up once per second) may
                    # legitimately still block this one
                    def samekey(o):
                        if o['op']['kind'] == 'foo' or r['op']['kind'] == 'foo':
                            return o['op']['kind'] == r['op']['kind']
                        return o['op']['kind'] == r['op']['kind'] and o['op']['key'] == r['op']['key']
                    for o in calls:
                        if o is r or not samekey(o) or o['t0'] > r['t1']:
                            continue
                        so = sent_for.get(o['uid'])
                        unanswered = so is None or so['t'] > r['t0']
                        if unanswered and o['t1'] > r['t0'] - 2.5 and o['t0'] <= r['t0'] + 0.001:
                            disturbed = True
                        if so is not None and so['t'] > o['t1']:
                            disturbed = True     # a late reply confuses the matching by key
                        ao = arrived.get(o['uid'])
                        if unanswered and ao is not None and ao['t'] >= o['t1'] - 0.001:
                            disturbed = True     # sent only after its caller had given up: blocks the key
                    # every request with the same key got its own reply in time, the last of them well before this
                    # one gave up: the reply must have requeued the parked request (nothing is left to block it)
                    hard = any(r['t0'] - 1 <= t <= r['t1'] for t, _ in losses) or \
                        any(t <= r['t1'] for t in blackholes) or first_user <= r['t1'] or \
                        any(c.lost_at is not None and c.lost_at <= r['t1'] and c.lost_at < t_final for c in pr.conns)
                    blockers = [o for o in calls if o is not r and samekey(o) and o['t0'] <= r['t1']]
                    if q is None and not hard and disturbed and \
                            all(reply_uid(o) == o['uid'] and o['t1'] < r['t1'] - 2.5 for o in blockers):
                        res.append(Violation('C11.lost-request', r['op']['kind'] + '|parked-forever',
                                             f'caller {r["task"]} uid {r["uid"]} ({r["op"]}) timed out after {wait:.2f} s: '
                                             f'the request was never sent to the peer although the connection was up and '
                                             f'all {len(blockers)} other requests with the same key had got their own replies '
                                             f'(the last at t={max((o["t1"] for o in blockers), default=0):.3f})'))
                    if q is None and not disturbed:
                        res.append(Violation('C11.lost-request', r['op']['kind'],
                                             f'caller {r["task"]} uid {r["uid"]} ({r["op"]}) timed out after {wait:.2f} s: '
                                             f'the request was never sent to the peer although the connection was up'))
                    elif q is not None and not disturbed:
                        s = sent_for.get(r['uid'])
                        if s is not None and s['t'] < r['t1'] - 2.5:
                            res.append(Violation('C11.lost-reply', r['op']['kind'],
                                                 f'caller {r["task"]} uid {r["uid"]} timed out at t={r["t1"]:.2f} although '
                                                 f'the peer sent its reply at t={s["t"]:.2f}'))
                    # connection lost while waiting: must have been released with a connection error
                    for t, why, cidx in losses_conn:
                        # (the loss of the connection on which this request was sent)
                        if r['t0'] < t and r['t1'] > t + 0.6 + 1.0 + 2.0 and arrived.get(r['uid']) is not None and \
                                arrived[r['uid']]['t'] < t and arrived[r['uid']]['conn'] == cidx:
                            res.append(Violation('C11.not-released', why,
                                                 f'caller {r["task"]} uid {r["uid"]} waited from t={r["t0"]:.2f}; the '
                                                 f'connection was lost ({why}) at t={t:.2f}; released only at '
                                                 f't={r["t1"]:.2f} with TimeoutError'))
                            break
                    # shut down by the user while waiting: released promptly with a connection error (judged in runs
                    # without any fault of the peer, for requests issued before the disconnect began)
                    if not any_fault:
                        for d in user_dis:
                            if d.get('final') or 't1' not in d:
                                continue
                            if r['t0'] < d['t0'] - 0.01 and r['t1'] > d['t1'] + 3.0:
                                res.append(Violation('C11.not-released', 'user-disconnect',
                                                     f'caller {r["task"]} uid {r["uid"]} ({r["op"]}) waited from t={r["t0"]:.3f}; '
                                                     f'the user shut the connection down at t={d["t0"]:.3f}..{d["t1"]:.3f}; the '
                                                     f'caller was released only at t={r["t1"]:.3f} with TimeoutError'))
                                break
                elif result[4] or etype in ('CommunicationFailedError',):
                    if not any_fault and first_user > r['t1']:
                        res.append(Violation('C11.spurious-connection-error', etype,
                                             f'caller {r["task"]} uid {r["uid"]}: {result[1:3]} without any connection '
                                             f'fault or disconnect in this run'))
                elif result[3]:
                    if got_uid is None and 'failed uid' not in result[2]:
                        res.append(Violation('C11.caller-raised', etype, f'uid {r["uid"]}: {result[1:3]}'))
                else:
                    mode = 'after-reconnect' if len(pr.conns) > 1 else 'single-connection'
                    res.append(Violation('C11.caller-raised', f'{etype}|{mode}',
                                         f'caller {r["task"]} uid {r["uid"]} ({r["op"]}): {result[1:3]}'))
        # a shutdown by the user stays a shutdown: without any fault of the peer, the client's reconnect thread never
        # opens a connection once disconnect() was called (a caller's own request may - it connects by itself)
        if not any_fault and user_dis:
            t_dis = min(d['t0'] for d in user_dis)
            later = [(t, who) for (t, _port, _res, who) in ctx.get('connect_log', ()) if t >= t_dis]
            by_reconnect = [x for x in later if '_reconnect' in x[1]]
            by_caller = [x for x in later if '_reconnect' not in x[1]]
            if by_reconnect and not by_caller:
                res.append(Violation('C11.reconnect-after-shutdown', 'reconnect-thread',
                                     f'disconnect() was called at t={t_dis:.3f}; the peer never failed, no caller connected '
                                     f'again, but the reconnect thread opened a connection at t={by_reconnect[0][0]:.3f}'))
        for d in user_dis:
            if d.get('result') is not None:
                tb = [ln.strip() for ln in (d['result'][2] or '').splitlines() if ln.strip() and not ln.strip().startswith('^')]
                site = tb[-2][:60] if len(tb) >= 2 else ''
                res.append(Violation('C11.disconnect-raised', f'{d["result"][0]}|{site}',
                                     f'SecopClient.disconnect() raised {d["result"][:2]}: {d["result"][2][-400:]}'))
            elif 't1' in d and d['t1'] - d['t0'] > 45:
                mode = 'after-reconnect' if len(pr.conns) > 1 else 'single-connection'
                res.append(Violation('C11.disconnect-slow', ('final|' if d.get('final') else 'user|') + mode,
                                     f'disconnect() took {d["t1"] - d["t0"]:.2f} s'))
        if ctx.get('alive') or ctx.get('client_threads'):
            names = ','.join(n.split('__')[-1] for n in ctx['alive'])[:40]
            # more than one connection was made during the run: connect() raced with a disconnect()
            mode = 'after-reconnect' if len(pr.conns) > 1 else 'single-connection'
            res.append(Violation('C11.thread-leak', f'{mode}|{names}',
                                 f'20 s after disconnect(): tasks alive {ctx["alive"]}, client attributes '
                                 f'{ctx["client_threads"]}'))
        return res


CHECK = C11()
