"""C15 -- lifecycle: initialise, write config, poll, serve; shutdown in reverse order

Real Server._processCfg / SecNode.create_modules / get_module / startModule /
MultiEvent start events / poll threads / SecNode.shutdown_modules over
generated, instrumented module classes: attachment graphs on up to 5 modules
(acyclic, cyclic, missing, wrongly typed, optional), shuffled declaration
orders, a dynamically scanning Pinata, shared communicators created through
`uri`, configured writes, failing early/late initialisation, slow or hanging
first polls.  Modules touch their attachments at generated phases
(earlyInit, initModule, startModule, poll, shutdown only, never).
"""
import threading
import time

from sim import env, kernel
from sim.harness import Check, Violation

from frappy.core import Attached, Communicator, FloatRange, HasIO, Module, Parameter, Readable
from frappy.dynamic import Pinata
from frappy.errors import CommunicationFailedError

PHASES = ('early', 'init', 'start', 'poll', 'shutdown', 'never')


class C15(Check):
    ID = 'C15'
    TRACE_FILES = ('secnode.py', 'modulebase.py')
    TIERS = {'quick': {'runs': 15000, 'wall': 70}, 'thorough': {'runs': 300000, 'wall': 800}}
    MAX_VIRTUAL = 400
    RULE = ('[a third of the configured writes use the default value of the parameter; restart generation; attachments named io] ' '[30 % of the cases shut down in the middle of a read of 0.1..0.7 s] ' 'case = 2..5 modules + attachment edges (acyclic; with probability cyclic / missing target / wrong base '
            'class / optional and empty), first-access phase per edge in {earlyInit, initModule, startModule, poll, '
            'shutdown, never}, shuffled declaration order, optional Pinata with dynamic modules, optional shared '
            'communicator via uri, configured writes, failing earlyInit/initModule, slow (<= 3 s) or hanging (40 s) '
            'first polls, shutdown while a read is in progress; distinct = different (case digest, schedule digest); '
            'non-trivial = >= 1 attachment edge between existing modules or >= 1 injected configuration error')
    REAL = ['frappy.server.Server._processCfg', 'frappy.secnode.SecNode (create_modules, get_module, get_module_instance, '
            'shutdown_modules, _getSortedModules)', 'frappy.modules.Attached', 'frappy.io.HasIO (automatic communicator)',
            'frappy.modulebase.Module (earlyInit/initModule/startModule, poll thread start-up, writeInitParams, '
            'stop/joinPollThread)', 'frappy.lib.multievent.MultiEvent', 'frappy.dynamic.Pinata']
    STUB = ['hardware (instrumented generated classes)', 'clock', 'threading primitives']
    ASSUMPTIONS = ['a missing / wrongly typed attachment must be reported before anything is started, whenever (or whether '
                   'ever) the module would use it; a start-up ending with a configuration error has started, polled and '
                   'written nothing',
                   'shutdown order is required for every configured attachment between existing modules, whether or '
                   'not it was used before']
    PROBES = ('c15.attachment-edge', 'c15.cyclic', 'c15.missing-target', 'c15.wrong-type', 'c15.pinata', 'c15.shared-io',
              'c15.failing-init', 'c15.hanging-first-poll', 'c15.configured-write', 'c15.configured-write-equals-default', 'c15.shutdown-during-read', 'c15.restart', 'c15.attached-to-dynamic-module', 'c15.polled-by-attached-io', 'fault.start-up-write-comfail',
              'c15.unexported-module', 'fault.first-read-comfail')

    def gen_case(self, rng, tier):
        n = rng.randrange(2, 6)
        mods = []
        for i in range(n):
            mods.append({'name': f'm{i}', 'atts': [], 'poll': rng.random() < 0.7, 'cfgwrite': rng.random() < 0.3, 'cfgval': rng.choice([4.5, 4.5, 0]),
                         'fail': rng.choice([None] * 12 + ['early', 'init']),
                         'first_poll': rng.choice([0, 0, 0, 0.2, 3.0]), 'comm': rng.random() < 0.2,
                         # not exported: invisible for clients, but a module of the node like the others
                         'export': rng.random() > 0.15,
                         # the very first read fails with a communication error (device not yet reachable)
                         'first_comfail': rng.random() < 0.12,
                         # the configured start value cannot be written at the first attempt (communication failure)
                         'write_comfail': rng.random() < 0.15})
        order = list(range(n))
        rng.shuffle(order)       # topological rank
        for a in range(n):
            for b in range(n):
                if a != b and order[a] > order[b] and rng.random() < 0.35 and len(mods[a]['atts']) < 3:
                    mods[a]['atts'].append({'to': f'm{b}', 'phase': rng.choice(PHASES), 'mandatory': rng.random() < 0.7,
                                            'kind': 'ok'})
        r = rng.random()
        err = None
        if r < 0.1:
            a, b = rng.sample(range(n), 2)
            if order[a] > order[b]:
                a, b = b, a
            mods[a]['atts'].append({'to': f'm{b}', 'phase': rng.choice(PHASES[:3]), 'mandatory': True, 'kind': 'cycle'})
            # make sure the other direction exists
            if not any(x['to'] == f'm{a}' for x in mods[b]['atts']):
                mods[b]['atts'].append({'to': f'm{a}', 'phase': rng.choice(PHASES[:3]), 'mandatory': True, 'kind': 'ok'})
            err = 'cycle'
        elif r < 0.2:
            a = rng.randrange(n)
            mods[a]['atts'].append({'to': 'nowhere', 'phase': rng.choice(PHASES), 'mandatory': True, 'kind': 'missing'})
            err = 'missing'
        elif r < 0.28:
            cands = [(a, b) for a in range(n) for b in range(n) if a != b and order[a] > order[b] and not mods[b]['comm']]
            if cands:
                a, b = rng.choice(cands)
                mods[a]['atts'] = [x for x in mods[a]['atts'] if x['to'] != f'm{b}']
                mods[a]['atts'].append({'to': f'm{b}', 'phase': rng.choice(PHASES), 'mandatory': True, 'kind': 'wrongtype'})
                err = 'wrongtype'
        elif r < 0.36:
            a = rng.randrange(n)
            mods[a]['atts'].append({'to': '', 'phase': rng.choice(PHASES), 'mandatory': False, 'kind': 'empty'})
        elif r < 0.42:
            a = rng.randrange(n)
            mods[a]['atts'].append({'to': None, 'phase': 'never', 'mandatory': True, 'kind': 'notgiven'})
            err = 'notgiven'
        pinata = rng.random() < 0.2
        pin_pos = rng.choice(['first', 'middle', 'middle', 'last'])
        if pinata and err is None and rng.random() < 0.5:
            # a configured module is attached to a module which only the pinata brings (declared before or after it)
            rng.choice(mods)['atts'].append({'to': 'dyn0', 'phase': rng.choice(PHASES), 'mandatory': True, 'kind': 'ok'})
        for i, m in enumerate(mods):
            for j, a in enumerate(m['atts']):
                a['attr'] = f'att{j}'
        shared_io = rng.random() < 0.25
        if not shared_io and rng.random() < 0.35:
            # attachments with the name 'io': the module is then polled by the poll thread of the module it is attached
            # to (chains user -> multiplexer -> bus included)
            for m in mods:
                oks = [a for a in m['atts'] if a['kind'] == 'ok']
                if oks and rng.random() < 0.6:
                    oks[0]['attr'] = 'io'
        decl = list(range(n))
        rng.shuffle(decl)
        shape = {'p_switch': rng.choice([0.1, 0.3]), 'line_gaps': rng.choice([0, 0, 10]),
                 'mods': mods, 'decl': decl, 'err': err,
                 'pinata': pinata, 'pin_pos': pin_pos, 'shared_io': shared_io,
                 'hang': rng.random() < 0.06, 'run_time': rng.choice([0.5, 3.0]),
                 'shutdown_in_read': rng.random() < 0.3, 'read_dur': rng.choice([0.1, 0.2, 0.3, 0.7]),
                 # Server.run() after Server.restart(): shut down, then the same configuration is started again in
                 # the same process; the second generation is judged like the first
                 'restart': rng.random() < 0.2}
        return {'shape': shape, 'ops': []}

    # ------------------------------------------------------------------ run
    def main(self, sim, case, ctx):
        shape = case['shape']
        world = ctx['world'] = env.World(sim)
        log = ctx['log'] = []
        HasIO.ioDict.clear()

        def rec(*ev):
            if not sim.finished:
                log.append((sim.next_seq(), sim.vnow()) + ev)

        classes = []
        all_states = []

        from frappy.core import Property, StringType

        class SharedIO(Communicator):
            uri = Property('uri', StringType(), default='')

            def earlyInit(self):
                rec('earlyInit', self.name)
                super().earlyInit()

            def initModule(self):
                rec('initModule', self.name)
                super().initModule()

            def startModule(self, start_events):
                rec('startModule', self.name)
                super().startModule(start_events)

            def stopPollThread(self):
                rec('stopPollThread', self.name)
                super().stopPollThread()

            def shutdownModule(self):
                rec('shutdownModule', self.name)

            def use(self, who):
                rec('use', who, self.name, bool(self.initModuleDone))

            def communicate(self, command):
                return command
        classes.append(SharedIO)

        def make_class(m, idx, extra_bases=()):
            ns = {'__module__': __name__}
            for a in m['atts']:
                base = Communicator if a['kind'] == 'wrongtype' else Module
                ns[a['attr']] = Attached(base, mandatory=a['mandatory'])
            ns['setp'] = Parameter('configurable', FloatRange(), default=0, readonly=False)
            ns['enablePoll'] = m['poll']
            state = {'polled': False, 'used': set()}
            all_states.append(state)

            def touch(self, phase):
                for a in m['atts']:
                    if a['phase'] == phase and a['attr'] not in state['used']:
                        state['used'].add(a['attr'])
                        try:
                            other = getattr(self, a['attr'])
                        except Exception as e:   # noqa
                            rec('attach-error', self.name, a['attr'], phase, type(e).__name__, str(e)[:100])
                            if phase in ('early', 'init', 'start'):
                                raise
                            continue
                        if other is None:
                            rec('attach-none', self.name, a['attr'])
                        else:
                            other.use(self.name)

            def earlyInit(self):
                rec('earlyInit', self.name)
                super(cls, self).earlyInit()
                if m['fail'] == 'early':
                    raise RuntimeError(f'{self.name} earlyInit fails')
                touch(self, 'early')

            def initModule(self):
                rec('initModule', self.name)
                super(cls, self).initModule()
                if m['fail'] == 'init':
                    raise RuntimeError(f'{self.name} initModule fails')
                touch(self, 'init')

            def startModule(self, start_events):
                rec('startModule', self.name)
                touch(self, 'start')
                super(cls, self).startModule(start_events)

            def use(self, who):
                rec('use', who, self.name, bool(self.initModuleDone))

            def read_value(self):
                rec('read', self.name, 'value', threading.current_thread().name)
                if not state['polled']:
                    state['polled'] = True
                    d = 40.0 if (shape['hang'] and idx == 0) else m['first_poll']
                    if d:
                        time.sleep(d)
                    if m.get('first_comfail'):
                        sim.count('fault.first-read-comfail')
                        rec('read-done', self.name, 'value')
                        raise CommunicationFailedError(f'{self.name}: device not reachable yet')
                elif shape['shutdown_in_read']:
                    # every later read takes a while: the shutdown arrives in the middle of one (0.7 s is longer
                    # than the 0.5 s which shutdown_modules grants the poll threads)
                    time.sleep(shape.get('read_dur', 0.7))
                rec('read-done', self.name, 'value')
                return 1.0

            def read_setp(self):
                rec('read', self.name, 'setp', threading.current_thread().name)
                return self.setp

            def write_setp(self, value):
                rec('write', self.name, 'setp', value)
                if m.get('write_comfail') and not state.get('wrote'):
                    state['wrote'] = True
                    sim.count('fault.start-up-write-comfail')
                    raise CommunicationFailedError(f'{self.name}: device not reachable yet')
                return value

            def doPoll(self):
                rec('doPoll', self.name)
                touch(self, 'poll')
                super(cls, self).doPoll()

            def stopPollThread(self):
                rec('stopPollThread', self.name)
                super(cls, self).stopPollThread()

            def shutdownModule(self):
                rec('shutdownModule', self.name)
                touch(self, 'shutdown')
            for f in (earlyInit, initModule, startModule, use, read_value, read_setp, write_setp, doPoll, stopPollThread,
                      shutdownModule):
                if m['comm'] and f.__name__ in ('read_value',):
                    continue      # a bare Communicator has no value
                ns[f.__name__] = f
            bases = (HasIO, Readable) if m.get('hasio') else ((Communicator,) if m['comm'] else (Readable,))
            cls = type(f'LM{idx}', bases, ns)
            if m.get('hasio'):
                cls.ioClass = SharedIO
            return cls

        mods = [dict(m) for m in shape['mods']]
        if shape['shared_io']:
            sim.count('c15.shared-io')
            for m in mods[:2]:
                if not m['comm']:
                    m['hasio'] = True
        cfg = {}
        bycls = {}
        for i in shape['decl']:
            m = mods[i]
            cls = make_class(m, i)
            classes.append(cls)
            bycls[m['name']] = cls
            c = {'cls': cls, 'description': m['name']}
            if not m.get('export', True):
                c['export'] = False
                sim.count('c15.unexported-module')
            if not m['comm']:
                c['pollinterval'] = {'value': 0.5}
            for a in m['atts']:
                if a['to'] is not None:
                    c[a['attr']] = a['to']
            if m['cfgwrite']:
                # 0 is also the default of the parameter: a configured value is written all the same
                c['setp'] = {'value': m.get('cfgval', 4.5)}
                sim.count('c15.configured-write')
                if m.get('cfgval', 4.5) == 0:
                    sim.count('c15.configured-write-equals-default')
            if m.get('hasio'):
                c['uri'] = 'tcp://simhost:999'
            cfg[m['name']] = c
        if shape['pinata']:
            sim.count('c15.pinata')
            dyn = make_class({'name': 'dyn0', 'atts': [], 'poll': True, 'cfgwrite': False, 'fail': None,
                              'first_poll': 0, 'comm': False}, 90)
            classes.append(dyn)

            class Pin(Pinata):
                def earlyInit(self):
                    rec('earlyInit', self.name)
                    super().earlyInit()

                def initModule(self):
                    rec('initModule', self.name)
                    super().initModule()

                def startModule(self, start_events):
                    rec('startModule', self.name)
                    super().startModule(start_events)

                def stopPollThread(self):
                    rec('stopPollThread', self.name)
                    super().stopPollThread()

                def shutdownModule(self):
                    rec('shutdownModule', self.name)

                def scanModules(self):
                    yield 'dyn0', {'cls': dyn, 'description': 'dynamic', 'pollinterval': {'value': 0.5}}
            classes.append(Pin)
            items = list(cfg.items())
            pos = {'first': 0, 'middle': len(items) // 2, 'last': len(items)}[shape.get('pin_pos', 'middle')]
            items.insert(pos, ('pin', {'cls': Pin, 'description': 'pinata'}))
            if any(a['to'] == 'dyn0' for m in mods for a in m['atts']):
                sim.count('c15.attached-to-dynamic-module')
            cfg = dict(items)
        ctx['cleanup'] = [lambda: env.forget_classes(*classes), HasIO.ioDict.clear]
        srv = world.make_server('n', cfg)

        def generation():
            ctx['exit'] = None
            t0 = sim.vnow()
            try:
                srv._processCfg()
                rec('ready')
            except SystemExit as e:
                ctx['exit'] = ('SystemExit', e.code)
                rec('exit')
            except Exception as e:   # noqa
                ctx['exit'] = (type(e).__name__, str(e)[:200])
                rec('exit')
            ctx['startup_time'] = sim.vnow() - t0
            ctx['errors'] = list(getattr(srv.secnode, 'errors', ()))
            ctx['created'] = list(srv.secnode.modules)
            if ctx['exit'] is None:
                time.sleep(shape['run_time'])
                rec('shutdown-begin')
                try:
                    srv.secnode.shutdown_modules()
                except Exception as e:   # noqa
                    ctx['shutdown_exc'] = repr(e)
                rec('shutdown-end')
                time.sleep(2)
                ctx['pollers_alive'] = sorted(t.name for t in sim.tasks if t.state != 'done' and 'pollThread' in t.name)
        generation()
        if shape.get('restart') and ctx['exit'] is None:
            sim.count('c15.restart')
            ctx['gen1'] = {k: (list(ctx[k]) if isinstance(ctx[k], list) else ctx[k])
                           for k in ('log', 'exit', 'startup_time', 'errors', 'created', 'pollers_alive', 'shutdown_exc')
                           if k in ctx}
            del log[:]
            ctx.pop('shutdown_exc', None)
            for st in all_states:
                st.update(polled=False, used=set(), wrote=False)
            srv.restart_hook()
            generation()

    # ------------------------------------------------------------------ oracle
    def observation(self, sim, case, ctx):
        return [e[2:] for e in ctx.get('log', ())], ctx.get('exit')

    def nontrivial(self, sim, case, ctx):
        shape = case['shape']
        return bool(shape['err']) or any(a['kind'] == 'ok' for m in shape['mods'] for a in m['atts'])

    def judge(self, sim, case, ctx):
        if 'gen1' in ctx:
            res = self.judge_gen(sim, case, ctx['gen1'])
            if res:
                return res
            return [Violation(v['rule'], v['sig'][len(v['rule']) + 1:] + '|restarted',
                              'second generation (after a restart): ' + v['msg'])
                    for v in self.judge_gen(sim, case, ctx)]
        return self.judge_gen(sim, case, ctx)

    def judge_gen(self, sim, case, ctx):
        res = []
        shape = case['shape']
        log = ctx['log']
        cnt = sim.counters

        def bump(k):
            cnt[k] = cnt.get(k, 0) + 1
        mods = {m['name']: m for m in shape['mods']}
        edges = [(m['name'], a) for m in shape['mods'] for a in m['atts']]
        if any(a['kind'] == 'ok' for _u, a in edges):
            bump('c15.attachment-edge')
        err = shape['err']
        if err:
            bump({'cycle': 'c15.cyclic', 'missing': 'c15.missing-target', 'wrongtype': 'c15.wrong-type',
                  'notgiven': 'c15.missing-target'}[err])
        failing = [m['name'] for m in shape['mods'] if m['fail']]
        if failing:
            bump('c15.failing-init')
        if shape['hang']:
            bump('c15.hanging-first-poll')

        def events(kind, name=None):
            return [e for e in log if e[2] == kind and (name is None or e[3] == name)]
        # ---- configuration errors must be reported, not swallowed
        must_fail = None
        if failing:
            must_fail = f'failing initialisation of {failing}'
        for user, a in edges:
            if a['kind'] in ('missing', 'wrongtype'):
                # (whatever the phase of its first use: attachments are resolved before anything is started)
                must_fail = f'{a["kind"]} attachment {user}.{a["attr"]} -> {a["to"]!r} first used in {a["phase"]}'
            if a['kind'] == 'notgiven':
                must_fail = f'mandatory attachment {user}.{a["attr"]} not configured'
            if a['kind'] == 'cycle':
                must_fail = f'cyclic attachment via {user}.{a["attr"]} -> {a["to"]}'
        if must_fail and ctx['exit'] is None:
            kind = err or 'failing-init'
            res.append(Violation('C15.config-error-not-reported', kind,
                                 f'{must_fail}: the node started (errors collected: {ctx["errors"][:3]})'))
            return res
        if ctx['exit'] is not None:
            # a configuration error is reported *instead of* a half-started node: nothing was started, polled or
            # written to the hardware before the node gave up
            begun = [e for e in log if e[2] in ('startModule', 'doPoll', 'write') or (e[2] == 'read' and 'pollThread' in str(e[-1]))]
            if begun:
                res.append(Violation('C15.half-started', begun[0][2],
                                     f'start-up ended with {ctx["exit"]} ({ctx["errors"][:2]}), but before that: '
                                     f'{[e[2:5] for e in begun[:5]]}'))
                return res
            # also a start-up which ends with an error report runs no phase of any module twice
            for n in sorted({e[3] for e in log if e[2] in ('earlyInit', 'initModule', 'startModule')}):
                for k in ('earlyInit', 'initModule', 'startModule'):
                    if len(events(k, n)) > 1:
                        res.append(Violation('C15.not-exactly-once', k + '|failed-start',
                                             f'{n}: {k} ran {len(events(k, n))} times in a start-up which ended with '
                                             f'{ctx["exit"]}'))
                        return res
            if not must_fail:
                # late (poll/shutdown/never) use of a bad attachment is allowed to pass start-up; anything else is not
                res.append(Violation('C15.unexpected-start-failure', str(ctx['exit'][0]),
                                     f'start-up failed with {ctx["exit"]}; errors {ctx["errors"][:4]}'))
            elif ctx['exit'][0] not in ('SystemExit', 'ConfigError', 'NoSuchModuleError'):
                res.append(Violation('C15.config-error-not-a-config-error', ctx['exit'][0],
                                     f'{must_fail}: start-up ended with {ctx["exit"]} instead of the configuration error report'))
            return res
        # ---- started: per module exactly once and in order
        names = [n for n in ctx['created']]
        for n in names:
            seqs = {}
            for k in ('earlyInit', 'initModule', 'startModule', 'shutdownModule'):
                ev = events(k, n)
                if len(ev) != 1:
                    res.append(Violation('C15.not-exactly-once', k, f'{n}: {k} ran {len(ev)} times'))
                    return res
                seqs[k] = ev[0][0]
            if not seqs['earlyInit'] < seqs['initModule'] < seqs['startModule'] < seqs['shutdownModule']:
                res.append(Violation('C15.phase-order', 'module', f'{n}: {seqs}'))
                return res
        # ---- a module reached through an attachment is initialised before its user sees it
        for e in events('use'):
            if not e[5]:
                res.append(Violation('C15.used-before-initialised', 'attachment',
                                     f'{e[3]} reached {e[4]} through an attachment before its initModule had run'))
                return res
        # ---- configured values are written before the first poll of any module on that poll thread
        for m in shape['mods']:
            if m['cfgwrite'] and m['name'] in names:
                w = [e for e in log if e[2] == 'write' and e[3] == m['name']]
                if len(w) != 1:
                    res.append(Violation('C15.configured-write', 'count', f'{m["name"]}: write_setp ran {len(w)} times'))
                    continue
                first = next((e for e in log if e[2] in ('doPoll', 'read') and e[3] == m['name']
                              and 'pollThread' in (e[5] if e[2] == 'read' else 'pollThread')), None)
                if first is not None and first[0] < w[0][0]:
                    res.append(Violation('C15.configured-write', 'after-poll',
                                         f'{m["name"]}: first poll (seq {first[0]}) before the configured write (seq {w[0][0]})'))
        # ---- ready only after every poll thread finished its first round, or the time-out passed
        ready = events('ready')[0]
        # (a communication failure during the first round makes the poll thread give up that round at once and
        # report itself started, by design: the other modules served by the same thread are not waited for then)
        shared = [mm['name'] for i, mm in enumerate(shape['mods']) if shape['shared_io'] and i < 2 and not mm['comm']]

        def owner(mm):
            # the module whose poll thread serves mm
            for a in mm['atts']:
                if a.get('attr') == 'io' and a['kind'] == 'ok':
                    return a['to']
            return 'shared-io' if mm['name'] in shared else mm['name']
        if any(a.get('attr') == 'io' for mm in shape['mods'] for a in mm['atts']):
            bump('c15.polled-by-attached-io')
        gave_up = set()
        for mm in shape['mods']:
            if mm.get('first_comfail') and mm['poll']:
                gave_up.add(mm['name'])
                gave_up.update(x['name'] for x in shape['mods'] if owner(x) == owner(mm))
        for m in shape['mods']:
            if m['name'] in gave_up:
                continue
            if m['poll'] and not m['comm'] and m['name'] in names:
                done = [e for e in log if e[2] == 'read-done' and e[3] == m['name']]
                if (not done or done[0][0] > ready[0]) and ctx['startup_time'] < 29.9:
                    res.append(Violation('C15.ready-too-early', 'first-round',
                                         f'the node reported ready after {ctx["startup_time"]:.2f} s although the first read of '
                                         f'{m["name"]} had not finished'))
                    return res
        # ---- shutdown: all pollers stopped first, every module once, users before the modules they are attached to
        sb = events('shutdown-begin')[0][0]
        stops = [e for e in log if e[2] == 'stopPollThread' and e[0] > sb]
        downs = [e for e in log if e[2] == 'shutdownModule' and e[0] > sb]
        if downs and stops and max(e[0] for e in stops if True) > min(e[0] for e in downs):
            late = [e[3] for e in stops if e[0] > min(d[0] for d in downs)]
            # joinPollThread calls stopPollThread again for every module: only a module never stopped before counts
            first_stop = {}
            for e in stops:
                first_stop.setdefault(e[3], e[0])
            bad = [n for n, q in first_stop.items() if q > min(d[0] for d in downs)]
            if bad:
                res.append(Violation('C15.shutdown-before-pollers-stopped', 'order',
                                     f'shutdownModule of {downs[0][3]} ran before the poll thread of {bad} was asked to stop'))
        # no module is shut down while a poll thread is still in the middle of a read which ends within the 0.5 s
        # that shutdown_modules grants the poll threads (it waits for them before the first shutdownModule)
        tsb = events('shutdown-begin')[0][1]
        reads = {}
        intervals = []
        for e in log:
            if e[2] == 'read' and e[4] == 'value' and 'pollThread' in e[5]:
                reads[e[3]] = e
            elif e[2] == 'read-done' and e[3] in reads:
                b = reads.pop(e[3])
                intervals.append((b[0], e[0], b[1], e[1], e[3]))
        for d in downs:
            hit = [iv for iv in intervals if iv[0] < d[0] < iv[1] and iv[3] < tsb + 0.5 - 0.01]
            if hit:
                bump('c15.shutdown-during-read-checked')
                res.append(Violation('C15.shutdown-before-pollers-stopped', 'poll-in-progress',
                                     f'shutdownModule of {d[3]} ran at t={d[1]:.3f} while the poll thread was inside '
                                     f'read_value of {hit[0][4]} (t={hit[0][2]:.3f}..{hit[0][3]:.3f}); shutdown began at '
                                     f't={tsb:.3f} and waits up to 0.5 s for the poll threads'))
                break
        if 'shutdown_exc' in ctx:
            res.append(Violation('C15.shutdown-raised', 'exception', ctx['shutdown_exc']))
        if shape['shutdown_in_read']:
            bump('c15.shutdown-during-read')
        dseq = {e[3]: e[0] for e in downs}
        for user, a in edges:
            if a['kind'] == 'ok' and a['to'] in dseq and user in dseq and dseq[user] > dseq[a['to']]:
                res.append(Violation('C15.shutdown-order', f'first-use-{a["phase"]}',
                                     f'{a["to"]} was shut down before {user}, which is attached to it ({a["attr"]}, first used '
                                     f'in phase {a["phase"]})'))
                break
        for m in shape['mods']:
            if m.get('hasio') is None:
                pass
        # shared communicator: users before the communicator
        for n, q in dseq.items():
            if n.endswith('_io'):
                users = [u for u in dseq if u + '_io' == n or True]
        # (a poll thread still inside a long first read cannot stop before that read returns)
        open_reads = {}
        for e in log:
            if e[2] == 'read' and e[4] == 'value':
                open_reads[e[3]] = e
            elif e[2] == 'read-done':
                open_reads.pop(e[3], None)
        if ctx.get('pollers_alive') and not shape['hang'] and not open_reads:
            res.append(Violation('C15.poller-survives-shutdown', 'thread', f'{ctx["pollers_alive"]} alive 2 s after shutdown'))
        return res


CHECK = C15()
