"""C10 -- configuration is applied faithfully; erroneous configuration is rejected whole

The real Server constructor (config file lookup, the Python config DSL,
process_file, merging of several files) and the real Server._processCfg
(module creation, start, poll threads, start events) run under the kernel on
generated configuration *files* over generated module classes with a
recording driver.  0..3 errors of the kinds the property lists are injected
into different modules.
"""
import json
import os
import shutil
import threading
import time
from pathlib import Path

from sim import dtgen, env, genmod, kernel, nodeworld
from sim.harness import Check, Violation

from frappy.core import Property, StringType
from frappy.lib import generalConfig
from frappy.server import Server

REG = {}       # class registry the generated config files import from
NUMERIC = ('double', 'int', 'scaled')
ERROR_KINDS = ('unknown-name', 'unknown-param-property', 'wrong-type-value', 'missing-mandatory', 'needscfg',
               'inverted-limits', 'bad-module-property', 'optional-not-implemented', 'value-exceeds-configured-size')


def rng_choice_opt(cfg):
    return 'opt_b = 50' if cfg.get('opt_style', 0) == 0 else 'opt_b = Param(50, max = 80)'


def pyrepr(di, wire):
    """python source of a value the config file can hand to the datatype"""
    return repr(dtgen.to_internal(di, wire))


class C10(Check):
    ID = 'C10'
    TRACE_FILES = ('modulebase.py', 'server.py')
    TIERS = {'quick': {'runs': 12000, 'wall': 70}, 'thorough': {'runs': 200000, 'wall': 800}}
    MAX_VIRTUAL = 400
    RULE = ('[error kind: value longer than the maxchars/maxbytes/maxlen given with it; 40 % of the modules with a double value get their unit from the configuration, members of structs/tuples with units relative to it] ' '[a quarter of the cases restart the node on the same loaded configuration and judge the second generation] ' 'case = 1..3 generated module classes + configuration files (1..2 files, merged) configuring a random subset '
            'of parameters (bare value / Param(value) / Param(min, max, unit, visibility, readonly, export)) and module '
            'properties, with 0..3 injected errors {unknown name, unknown parameter property, value of the wrong type, '
            'missing mandatory property, required value missing, inverted limits, bad module property, Param(value, maxchars/maxbytes/maxlen below the length of that value)}; distinct = '
            'different (case digest, schedule digest); non-trivial = >= 1 parameter with a write method configured (good '
            'configurations) or >= 1 injected error (bad ones)')
    REAL = ['frappy.server.Server.__init__ + _processCfg', 'frappy.config (to_config_path, process_file, Mod/Param/Node, '
            'merge_modules, load_config)', 'frappy.modulebase.Module.__init__ (properties, accessibles, error collection, '
            '_handle_writes), writeInitParams, poll thread', 'frappy.secnode (create_modules, error aggregation)',
            'frappy.params / properties / datatypes']
    STUB = ['hardware (recording fake driver)', 'signal handling (no-op)', 'clock', 'TCP (sim.net, for the description '
            'and range probes)']
    ASSUMPTIONS = ['"rejected as a whole": start-up ends with the error report (SystemExit / ConfigError), its text names '
                   'every module with an injected error, and no configured value has reached any driver',
                   'values are compared in wire form by the harness\' own conversion']
    PROBES = ('c10.good-config', 'c10.export-configured', 'c10.main-unit-in-structured-member', 'c10.bad-config', 'c10.multi-file', 'c10.limits-overridden', 'c10.write-configured',
              'c10.several-errors', 'c10.restart', 'c10.two-modules-of-one-class', 'c10.internal-write-probe', 'fault.start-up-write-comfail') + tuple(f'c10.err.{k}' for k in ERROR_KINDS)

    def gen_case(self, rng, tier):
        specs = []
        for i in range(rng.choice([1, 2, 3])):
            s = genmod.gen_module_spec(rng, f'm{i}', depth=rng.choice([1, 2]), full=False)
            s['enablePoll'] = rng.random() < 0.7
            s['pollinterval'] = rng.choice([0.3, 1.0])
            for p in s['params']:
                p['constant'] = None
                p['limits'] = None
                p['veto'] = None
                p['export'] = True
            if rng.random() < 0.3:
                s['mandatory_prop'] = True
            if rng.random() < 0.3:
                s['needscfg'] = f'p{len(s["params"])}'
                # (a value is required from the configuration also when the class has a default; giving only
                # properties of the parameter, or a default, is no value)
                s['needscfg_default'] = rng.random() < 0.5
                s['needscfg_omit'] = rng.choice(['nothing', 'props', 'default'])
            if rng.random() < 0.25:
                s['optional'] = True
            specs.append(s)
        if rng.random() < 0.3:
            # two modules of one class, each with a configuration of its own (nothing configured for one instance may
            # leak into the other)
            import copy
            twin = copy.deepcopy(specs[0])
            twin['name'] = specs[0]['name'] + 'b'
            twin['twin_of'] = specs[0]['name']
            specs.append(twin)
        def relative_units(di):
            """give the double members of structs and tuples (at any depth) units relative to the main unit"""
            n = 0
            if di['type'] == 'struct':
                for m in di['members'].values():
                    n += relative_units(m)
            elif di['type'] == 'tuple':
                for m in di['members']:
                    n += relative_units(m)
            elif di['type'] == 'array':
                if di['members']['type'] in ('struct', 'tuple', 'array'):
                    n += relative_units(di['members'])
            elif di['type'] == 'double' and rng.random() < 0.7:
                di['unit'] = rng.choice(['$', '$/min', 'A/$'])
                n += 1
            return n
        cfgs = {}
        for s in specs:
            entries = []
            vp = next((p for p in s['params'] if p['name'] == 'value' and p['di']['type'] == 'double'), None)
            if vp is not None and not s.get('twin_of') and rng.random() < 0.4:
                # the unit of the module comes from the configuration; structured parameters refer to it
                if sum(relative_units(p['di']) for p in s['params'] if p['di']['type'] in ('struct', 'tuple', 'array')
                       and p['name'] not in ('value', 'status')):
                    for tw in specs:
                        if tw.get('twin_of') == s['name']:
                            tw['params'] = __import__('copy').deepcopy(s['params'])
                entries.append({'p': 'value', 'style': 'param', 'props': {'unit': rng.choice(['K', 'mT'])}, 'value': None})
            for p in s['params']:
                if p['name'] in ('value', 'status'):
                    continue
                if rng.random() < 0.55:
                    e = {'p': p['name'], 'style': rng.choice(['bare', 'param']), 'props': {}}
                    e['value'] = dtgen.valid_wire(rng, p['di'])
                    if rng.random() < 0.2:
                        e['value'] = None
                    if e['value'] is None:
                        e['style'] = 'param'
                    if p['di']['type'] in ('double',) and rng.random() < 0.4 and p['name'] != 'target':
                        lo = p['di'].get('min', -1000.0)
                        hi = p['di'].get('max', lo + 2000.0)
                        if hi - lo > 1e-6 and hi < 1e300 and lo > -1e300:
                            if rng.random() < 0.5:
                                nlo = lo + (hi - lo) * 0.25
                                nhi = lo + (hi - lo) * 0.75
                            else:
                                # the configuration may also widen the range the class declares
                                nlo = lo - (hi - lo) * 0.25
                                nhi = hi + (hi - lo) * 0.25
                                if e['value'] is not None and rng.random() < 0.5:
                                    e['value'] = rng.choice([nlo + (hi - lo) * 0.1, nhi - (hi - lo) * 0.1])
                            e['props']['min'] = nlo
                            e['props']['max'] = nhi
                            e['style'] = 'param'
                            if e['value'] is not None:
                                e['value'] = min(max(e['value'], nlo), nhi)
                    if p['di']['type'] in ('double', 'scaled') and rng.random() < 0.2:
                        e['props']['unit'] = rng.choice(['K', 'mm', 'xyz'])
                        e['style'] = 'param'
                    if p['di']['type'] == 'array' and p['di']['members']['type'] == 'double' and rng.random() < 0.5:
                        # properties of the member datatype of an array are set through the array
                        mdi = p['di']['members']
                        if rng.random() < 0.6:
                            e['props']['unit'] = rng.choice(['K', 'mm', 'xyz'])
                        lo, hi = mdi.get('min', -1000.0), mdi.get('max', mdi.get('min', -1000.0) + 2000.0)
                        if hi - lo > 1e-6 and hi < 1e300 and lo > -1e300 and rng.random() < 0.6:
                            f = rng.choice([0.1, 0.25, 0.4])
                            e['props']['min'] = lo + (hi - lo) * f
                            e['props']['max'] = hi - (hi - lo) * f
                            e['value'] = None
                        if e['props']:
                            e['style'] = 'param'
                    if rng.random() < 0.15:
                        e['props']['visibility'] = rng.choice([1, 2, 3])
                        e['style'] = 'param'
                    if rng.random() < 0.12:
                        # (stating what the class says already)
                        e['props']['export'] = True
                        e['style'] = 'param'
                    if rng.random() < 0.1:
                        # (readonly=False on a parameter the class declares read-only without a write method leaves
                        # the node without a write wrapper: observation noted in DESIGN.md, not part of this property)
                        e['props']['readonly'] = True
                        e['style'] = 'param'
                    if e['value'] is None and not e['props']:
                        continue
                    entries.append(e)
            cfgs[s['name']] = {'entries': entries, 'group': rng.choice([None, None, 'grp']),
                               'file': 0, 'errors': []}
            if s.get('mandatory_prop'):
                cfgs[s['name']]['need'] = 'given'
            if s.get('needscfg'):
                cfgs[s['name']]['needscfg_value'] = rng.randrange(100)
            if s.get('optional'):
                cfgs[s['name']]['opt_a'] = rng.choice([None, 3.5, 20])
                cfgs[s['name']]['opt_style'] = rng.choice([0, 1])
        nerr = rng.choice([0, 0, 0, 1, 1, 2, 3])
        names = list(cfgs)
        for _ in range(nerr):
            m = rng.choice(names)
            kind = rng.choice(ERROR_KINDS)
            spec = next(s for s in specs if s['name'] == m)
            if kind == 'missing-mandatory' and not spec.get('mandatory_prop'):
                kind = 'unknown-name'
            if kind == 'optional-not-implemented' and not spec.get('optional'):
                kind = 'unknown-name'
            if kind == 'needscfg' and not spec.get('needscfg'):
                kind = 'unknown-param-property'
            if kind == 'inverted-limits' and not any(p['di']['type'] == 'double' and p['name'] not in ('value', 'target')
                                                     for p in spec['params']):
                kind = 'wrong-type-value'
            if kind == 'value-exceeds-configured-size':
                # Param(<value the class would take>, maxchars / maxbytes / maxlen = <less than its length>)
                over = None
                for p in spec['params']:
                    t = p['di']['type']
                    if t not in ('string', 'blob', 'array') or p['name'] == 'status':
                        continue
                    for _ in range(6):
                        w = dtgen.valid_wire(rng, p['di'])
                        n = len(dtgen.to_internal(p['di'], w))
                        lo = p['di'].get({'string': 'minchars', 'blob': 'minbytes', 'array': 'minlen'}[t], 0)
                        if n >= 1 and n - 1 >= lo:
                            over = {'p': p['name'], 'value': w, 'limit': n - 1,
                                    'prop': {'string': 'maxchars', 'blob': 'maxbytes', 'array': 'maxlen'}[t]}
                            break
                    if over:
                        break
                if over and 'oversize' not in cfgs[m]:
                    cfgs[m]['oversize'] = over
                elif not over:
                    kind = 'wrong-type-value'
            if kind not in cfgs[m]['errors']:
                cfgs[m]['errors'].append(kind)
        nfiles = rng.choice([1, 1, 2])
        if nfiles == 2 and len(names) > 1:
            for m in names[len(names) // 2:]:
                cfgs[m]['file'] = 1
        shape = {'p_switch': rng.choice([0.1, 0.3]), 'line_gaps': rng.choice([0, 0, 10]),
                 'specs': specs, 'cfgs': cfgs, 'nfiles': nfiles,
                 'first_write_slow': rng.random() < 0.2, 'restart': rng.random() < 0.25}
        # one configured start-up write fails once with a communication error (the connection drops for one request)
        written = [(m, e['p']) for m in names if not cfgs[m]['errors'] for e in cfgs[m]['entries']
                   if e['value'] is not None and next(p for s in specs if s['name'] == m for p in s['params']
                                                      if p['name'] == e['p']).get('write')]
        if written and rng.random() < 0.25:
            shape['write_comfail'] = list(rng.choice(written))
        return {'shape': shape, 'ops': []}

    # ------------------------------------------------------------------ config text
    def render(self, shape):
        files = [[f"from checks.c10 import REG\nNode('eq{k}', 'generated node {k}', 'tcp://10767')\n"]
                 for k in range(shape['nfiles'])]
        for spec in shape['specs']:
            cfg = shape['cfgs'][spec['name']]
            args = [repr(spec['name']), f"REG[{spec['name']!r}]", repr(f'module {spec["name"]}')]
            kw = []
            errs = cfg['errors']
            if spec.get('base', 'Module') != 'Module':
                kw.append(f'pollinterval = {spec["pollinterval"]}')
            else:
                kw.append(f'pollinterval = {spec["pollinterval"]}')
            if cfg.get('group'):
                kw.append(f'group = {cfg["group"]!r}')
            if cfg.get('need') and 'missing-mandatory' not in errs:
                kw.append("need = 'given'")
            if 'needscfg_value' in cfg and 'needscfg' not in errs:
                kw.append(f'{spec["needscfg"]} = {cfg["needscfg_value"]}')
            elif 'needscfg_value' in cfg and spec.get('needscfg_omit') == 'props':
                kw.append(f'{spec["needscfg"]} = Param(max = 800)')
            elif 'needscfg_value' in cfg and spec.get('needscfg_omit') == 'default':
                kw.append(f'{spec["needscfg"]} = Param(default = 7)')
            byname = {p['name']: p for p in spec['params']}
            for e in cfg['entries']:
                p = byname[e['p']]
                parts = []
                if e['value'] is not None:
                    parts.append(pyrepr(p['di'], e['value']))
                for k, v in e['props'].items():
                    parts.append(f'{k} = {v!r}')
                if e['style'] == 'bare':
                    kw.append(f'{e["p"]} = {parts[0]}')
                else:
                    kw.append(f'{e["p"]} = Param({", ".join(parts)})')
            if 'unknown-name' in errs:
                kw.append('no_such_thing = 5')
            if spec.get('optional') and cfg.get('opt_a') is not None:
                kw.append(f'opt_a = {cfg["opt_a"]}')
            if 'optional-not-implemented' in errs:
                # a section copied from a sibling class which implements this optional parameter
                kw.append(rng_choice_opt(cfg))
            if 'unknown-param-property' in errs:
                tgt = next(p['name'] for p in spec['params'] if p['name'] != 'status')
                kw = [x for x in kw if not x.startswith(tgt + ' =')]
                kw.append(f'{tgt} = Param(colour = "red")')
            if 'wrong-type-value' in errs:
                tgt = [p for p in spec['params'] if p['name'] not in ('status', 'value')][-1]
                bad = {'string': '5', 'blob': "'text'", 'bool': "'maybe'", 'enum': "'nomember_'"}.get(
                    tgt['di']['type'], "'not a value'")
                if tgt['di']['type'] in ('array', 'tuple', 'struct'):
                    bad = '5'
                kw = [x for x in kw if not x.startswith(tgt['name'] + ' =')]
                kw.append(f'{tgt["name"]} = {bad}')
            if 'value-exceeds-configured-size' in errs:
                o = cfg['oversize']
                kw = [x for x in kw if not x.startswith(o['p'] + ' =')]
                kw.append(f'{o["p"]} = Param({pyrepr(byname[o["p"]]["di"], o["value"])}, {o["prop"]} = {o["limit"]})')
            if 'inverted-limits' in errs:
                tgt = next(p for p in spec['params'] if p['di']['type'] == 'double' and p['name'] not in ('value', 'target'))
                kw = [x for x in kw if not x.startswith(tgt['name'] + ' =')]
                kw.append(f'{tgt["name"]} = Param(min = 10.0, max = 5.0)')
            if 'bad-module-property' in errs:
                kw = [x for x in kw if not x.startswith('pollinterval')]
                kw.append("pollinterval = 'often'")
            text = 'Mod(' + ',\n    '.join(args + kw) + ',\n)\n'
            files[cfg['file']].append(text)
        return [''.join(f) for f in files]

    # ------------------------------------------------------------------ run
    def main(self, sim, case, ctx):
        shape = case['shape']
        world = ctx['world'] = env.World(sim)
        drv = ctx['drv'] = genmod.Driver(sim)
        if shape['first_write_slow']:
            drv.scripts['*.write_target'] = [[0.5, 'ok']]
        if shape.get('write_comfail'):
            wm, wp = shape['write_comfail']
            drv.scripts[f'{wm}.write_{wp}'] = [[0, 'comfail']] + [[0, 'ok']] * 50
            sim.count('fault.start-up-write-comfail')
        classes = []
        REG.clear()
        for spec in shape['specs']:
            if spec.get('twin_of'):
                # a second module of the class of an earlier module (same class object)
                cls = REG[spec['twin_of']]
                for (m_, p_), v_ in list(drv.di.items()):
                    if m_ == spec['twin_of']:
                        drv.di[spec['name'], p_] = v_
                for (m_, p_), v_ in list(drv.reg.items()):
                    if m_ == spec['twin_of']:
                        drv.reg[spec['name'], p_] = v_
                drv.mods[spec['name']] = cls
                REG[spec['name']] = cls
                sim.count('c10.two-modules-of-one-class')
                continue
            cls = genmod.make_class(spec, drv)
            extra = {}
            if spec.get('mandatory_prop'):
                extra['need'] = Property('a mandatory property', StringType(), mandatory=True)
            if spec.get('needscfg'):
                from frappy.core import Parameter, IntRange
                extra[spec['needscfg']] = Parameter('needs a configured value', IntRange(0, 1000), needscfg=True,
                                                    readonly=False, **({'default': 5} if spec.get('needscfg_default') else {}))
            if extra:
                extra['__module__'] = cls.__module__
                cls = type(cls.__name__ + 'X', (cls,), extra)
            if spec.get('optional'):
                # optional parameters declared in a base class: opt_a is implemented by the class of the module,
                # opt_b is not - for this class it is an unknown name
                from frappy.core import Parameter, FloatRange
                base = type(cls.__name__ + 'Opt', (cls,), {
                    '__module__': cls.__module__,
                    'opt_a': Parameter('optional, implemented', FloatRange(0, 100), default=1, readonly=False, optional=True),
                    'opt_b': Parameter('optional, not implemented', FloatRange(0, 100), default=2, readonly=False,
                                       optional=True)})
                classes.append(base)
                cls = type(cls.__name__ + 'Impl', (base,), {'__module__': cls.__module__, 'opt_a': Parameter()})
            classes.append(cls)
            REG[spec['name']] = cls
        cfgdir = Path(env.SCRATCH) / f'c10-{os.getpid()}' / 'cfg'
        shutil.rmtree(cfgdir.parent, ignore_errors=True)
        cfgdir.mkdir(parents=True)
        old_conf = generalConfig._config.get('confdir')
        generalConfig._config['confdir'] = [cfgdir]

        def undo():
            generalConfig._config['confdir'] = old_conf
            shutil.rmtree(cfgdir.parent, ignore_errors=True)
            env.forget_classes(*classes)
            REG.clear()
        ctx['cleanup'] = [undo]
        texts = ctx['texts'] = self.render(shape)
        names = []
        for k, text in enumerate(texts):
            (cfgdir / f'gen{k}_cfg.py').write_text(text, encoding='utf-8')
            names.append(f'gen{k}')
        if shape['nfiles'] > 1:
            sim.count('c10.multi-file')
        ctx['exit'] = None
        srv = None
        try:
            srv = Server('gen0', world.rootlog, cfgfiles=names, interface='tcp://10767')
            world.servers.append(srv)
            srv._processCfg()
            if shape.get('restart'):
                # the node is restarted as Server.run() does after Server.restart(): the modules are shut down and
                # the configuration loaded at construction is applied once more; the second generation is judged
                time.sleep(0.2)
                sim.count('c10.restart')
                srv.secnode.shutdown_modules()
                time.sleep(0.1)
                del drv.calls[:]
                srv.restart_hook()
                srv._processCfg()
        except SystemExit as e:
            ctx['exit'] = ('SystemExit', e.code)
        except Exception as e:   # noqa
            ctx['exit'] = (type(e).__name__, str(e)[:300])
        ctx['errors'] = list(getattr(getattr(srv, 'secnode', None), 'errors', ()) or ())
        ctx['t_exit'] = sim.next_seq()
        time.sleep(0.2)
        ctx['writes_after'] = [c for c in drv.calls if c['kind'] == 'write']
        ctx['pollers'] = sorted(t.name for t in sim.tasks if t.state != 'done' and 'pollThread' in t.name)
        if ctx['exit'] is None:
            node_modules = srv.secnode.modules
            state = ctx['state'] = {}
            for spec in shape['specs']:
                mod = node_modules.get(spec['name'])
                if mod is None:
                    state[spec['name']] = None
                    continue
                st = {}
                for p in spec['params']:
                    pobj = mod.parameters[p['name']]
                    try:
                        w = dtgen.to_wire(p['di'], pobj.value)
                    except Exception as e:   # noqa
                        w = f'<unexportable {e!r}>'
                    st[p['name']] = {'value': w, 'readonly': pobj.readonly, 'visibility': int(pobj.visibility),
                                     'err': None if pobj.readerror is None else repr(pobj.readerror)}
                state[spec['name']] = st
            # description and range probes over the wire
            world.serve(srv)
            cl = nodeworld.RawClient(world)
            r = cl.request('describe', timeout=60)
            ctx['description'] = r[2].data if r else None
            probes = ctx['probes'] = []
            xprobes = ctx['export_probes'] = []
            for spec in shape['specs']:
                for e in shape['cfgs'][spec['name']]['entries']:
                    if e['props'].get('export') is True and not shape['cfgs'][spec['name']]['errors']:
                        # export given in the configuration: described and reachable under the same name
                        sim.count('c10.export-configured')
                        exp = genmod_expname(e['p'])
                        rr = cl.request(f'read {spec["name"]}:{exp}', timeout=60)
                        xprobes.append((spec['name'], e['p'], exp, rr[2].raw.decode('latin-1')[:160] if rr else None))
                    if 'min' in e['props'] and not shape['cfgs'][spec['name']]['errors']:
                        p = next(p for p in spec['params'] if p['name'] == e['p'])
                        if p['readonly'] and not e['props'].get('readonly') is False or e['props'].get('readonly'):
                            continue
                        if p['di']['type'] != 'double':
                            continue      # (member limits of arrays are judged on the description only)
                        exp = genmod_expname(p['name'])
                        lo, hi = e['props']['min'], e['props']['max']
                        span = hi - lo
                        di_cfg = dict(p['di'], min=lo, max=hi)

                        def judged(values):
                            # the reference validator says which probes are clearly inside / clearly outside the
                            # configured range (values inside the resolution band around a limit are not judged)
                            for v in values:
                                verdict, _info = dtgen.classify(di_cfg, v)
                                if verdict != dtgen.DONTCARE:
                                    yield v, verdict == dtgen.ACCEPT
                        for v, ok in judged((lo + span * 0.5, lo - span * 0.4 - 1, hi + span * 0.4 + 1,
                                             lo + span * 0.02, hi - span * 0.02)):
                            rr = cl.request(f'change {spec["name"]}:{exp} {json.dumps(v)}', timeout=60)
                            probes.append((spec['name'], p['name'], v, ok, rr[2].raw.decode('latin-1')[:160] if rr else None))
                        # the same limits hold for a write from inside the node (another module, a command)
                        mobj = node_modules[spec['name']]
                        for v, ok in judged((lo + span * 0.3, lo - span * 0.1, hi + span * 0.1,
                                             lo - span * 0.6 - 2, hi + span * 0.6 + 2)):
                            try:
                                getattr(mobj, 'write_' + p['name'])(v)
                                txt = 'changed (internal write)'
                            except Exception as ex:   # noqa
                                txt = f'error {type(ex).__name__}: {ex}'[:160]
                            probes.append((spec['name'], p['name'], v, ok, txt))
                            sim.count('c10.internal-write-probe')
            cl.close()
            srv.secnode.shutdown_modules()

    # ------------------------------------------------------------------ oracle
    def observation(self, sim, case, ctx):
        return ctx.get('exit'), ctx.get('state'), [(c['mod'], c['name'], c.get('arg')) for c in ctx['drv'].calls
                                                    if c['kind'] == 'write']

    def nontrivial(self, sim, case, ctx):
        c = sim.counters
        return c.get('c10.write-configured', 0) >= 1 or c.get('c10.bad-config', 0) >= 1

    def judge(self, sim, case, ctx):
        res = []
        shape = case['shape']
        cnt = sim.counters

        def bump(k):
            cnt[k] = cnt.get(k, 0) + 1
        bad = {m: c['errors'] for m, c in shape['cfgs'].items() if c['errors']}
        drv = ctx['drv']
        if bad:
            bump('c10.bad-config')
            if sum(len(v) for v in bad.values()) > 1:
                bump('c10.several-errors')
            for v in bad.values():
                for k in v:
                    bump(f'c10.err.{k}')
            if ctx['exit'] is None:
                res.append(Violation('C10.bad-config-accepted', '+'.join(sorted({k for v in bad.values() for k in v})),
                                     f'injected errors {bad} but the node started; collected errors {ctx["errors"][:4]}'))
                return res
            if ctx['exit'][0] not in ('SystemExit', 'ConfigError'):
                res.append(Violation('C10.bad-config-crashes', ctx['exit'][0],
                                     f'injected errors {bad}: start-up ended with {ctx["exit"]}'))
                return res
            report = '\n'.join(ctx['errors']) + ctx.get('stderr_text', '') + str(ctx['exit'][1])
            missing = [m for m in bad if m not in report]
            if missing:
                res.append(Violation('C10.error-report-incomplete', '+'.join(sorted({k for m in missing for k in bad[m]})),
                                     f'failing modules {sorted(bad)}; not named in the report: {missing}; report: '
                                     f'{report[:400]!r}'))
            writes = ctx['writes_after']
            if writes:
                res.append(Violation('C10.half-applied', 'driver-write-before-rejection',
                                     f'the configuration was rejected ({sorted(bad)}), but configured values had already '
                                     f'been written to the hardware: {[(w["mod"], w["name"], w["arg"]) for w in writes][:4]}'))
            return res
        bump('c10.good-config')
        if ctx['exit'] is not None:
            res.append(Violation('C10.good-config-rejected', str(ctx['exit'][0]),
                                 f'no error injected, start-up ended with {ctx["exit"]}; errors {ctx["errors"][:5]}; '
                                 f'config {ctx["texts"]}'))
            return res
        desc = ctx['description'] or {}
        for spec in shape['specs']:
            cfg = shape['cfgs'][spec['name']]
            st = ctx['state'].get(spec['name'])
            if st is None:
                res.append(Violation('C10.module-missing', 'module', f'{spec["name"]} not created'))
                continue
            byname = {p['name']: p for p in spec['params']}
            mdesc = desc.get('modules', {}).get(spec['name'], {})
            # the unit of the module (class or configuration) replaces $ in the units of all its parameters, at any depth
            accs = mdesc.get('accessibles', {})
            mainunit = ((accs.get('value') or {}).get('datainfo') or {}).get('unit')
            if mainunit and '$' not in mainunit:
                def units(di, path=''):
                    if isinstance(di, dict):
                        if isinstance(di.get('unit'), str):
                            yield path, di['unit']
                        for k, v in di.items():
                            if k == 'members' and isinstance(v, dict) and 'type' not in v:
                                for mk, mv in v.items():
                                    yield from units(mv, f'{path}.{mk}')
                            elif k == 'members' and isinstance(v, list):
                                for i_, mv in enumerate(v):
                                    yield from units(mv, f'{path}[{i_}]')
                            elif k == 'members':
                                yield from units(v, path + '[]')
                for aname, ad in accs.items():
                    adi = ad.get('datainfo') or {}
                    if adi.get('type') == 'command':
                        continue
                    for path, u in units(adi):
                        if '$' in u:
                            if path:
                                bump('c10.main-unit-in-structured-member')
                            res.append(Violation('C10.property-not-applied', 'main-unit' + ('|nested' if path else ''),
                                                 f'{spec["name"]}:{aname}{path}: described unit {u!r} although the module '
                                                 f'has the unit {mainunit!r}'))
                            break
                # (probe: a structured parameter whose member units were relative to the main unit)
                for p_ in spec['params']:
                    if p_['di']['type'] in ('struct', 'tuple', 'array') and '$' in json.dumps(p_['di']):
                        bump('c10.main-unit-in-structured-member')
            for e in cfg['entries']:
                p = byname[e['p']]
                cur = st[e['p']]
                exp = genmod_expname(e['p'])
                adesc = mdesc.get('accessibles', {}).get(exp)
                has_write = bool(p.get('write'))
                if e['value'] is not None:
                    writes = [c for c in drv.calls if c['kind'] == 'write' and c['mod'] == spec['name'] and c['name'] == e['p']
                              and 'pollThread' in c['task']]
                    if has_write:
                        bump('c10.write-configured')
                        if len(writes) != 1:
                            res.append(Violation('C10.configured-write-count', 'none' if not writes else 'several',
                                                 f'{spec["name"]}.{e["p"]} = {e["value"]!r} configured: write method called '
                                                 f'{len(writes)} times by the poll thread'))
                            continue
                        if not dtgen.wire_equal(p['di'], e['value'], writes[0]['arg']):
                            res.append(Violation('C10.configured-write-value', p['di']['type'],
                                                 f'{spec["name"]}.{e["p"]}: configured {e["value"]!r}, written {writes[0]["arg"]!r}'))
                        firstpoll = [c for c in drv.calls if c['kind'] == 'read' and 'pollThread' in c['task'] and
                                     c['mod'] == spec['name'] and c['seq'] < writes[0]['seq']]
                        if firstpoll:
                            res.append(Violation('C10.write-after-first-poll', 'order',
                                                 f'{spec["name"]}.{e["p"]}: {firstpoll[0]["mod"]}.read_{firstpoll[0]["name"]} '
                                                 f'polled before the configured value was written'))
                    elif not p.get('read') or not spec.get('enablePoll', True):
                        if not dtgen.wire_equal(p['di'], e['value'], cur['value']):
                            res.append(Violation('C10.start-value', p['di']['type'],
                                                 f'{spec["name"]}.{e["p"]}: configured {e["value"]!r}, cache holds {cur["value"]!r}'))
                if adesc is not None:
                    di = adesc['datainfo']
                    if p['di']['type'] == 'array' and isinstance(di.get('members'), dict):
                        di = di['members']      # min / max / unit of an array are those of its members
                    for k in ('min', 'max'):
                        if k in e['props']:
                            bump('c10.limits-overridden')
                            if abs(di.get(k, float('nan')) - e['props'][k]) > 1e-9 * max(1, abs(e['props'][k])):
                                res.append(Violation('C10.property-not-applied', k,
                                                     f'{spec["name"]}.{e["p"]}: configured {k}={e["props"][k]!r}, described {di.get(k)!r}'))
                    if 'unit' in e['props'] and di.get('unit') != e['props']['unit']:
                        res.append(Violation('C10.property-not-applied', 'unit',
                                             f'{spec["name"]}.{e["p"]}: configured unit {e["props"]["unit"]!r}, described {di.get("unit")!r}'))
                    if 'readonly' in e['props'] and adesc.get('readonly') != e['props']['readonly']:
                        res.append(Violation('C10.property-not-applied', 'readonly',
                                             f'{spec["name"]}.{e["p"]}: configured readonly={e["props"]["readonly"]}, '
                                             f'described {adesc.get("readonly")}'))
                    if 'visibility' in e['props'] and adesc.get('visibility', 1) != e['props']['visibility']:
                        res.append(Violation('C10.property-not-applied', 'visibility',
                                             f'{spec["name"]}.{e["p"]}: configured visibility {e["props"]["visibility"]}, '
                                             f'described {adesc.get("visibility", 1)}'))
            if cfg.get('group') and mdesc.get('group') != cfg['group']:
                res.append(Violation('C10.property-not-applied', 'group', f'{spec["name"]}: group {mdesc.get("group")!r}'))
        for (m, pn, exp, reply) in ctx.get('export_probes', ()):
            listed = exp in (ctx.get('description') or {}).get('modules', {}).get(m, {}).get('accessibles', {})
            if not listed or not reply or 'NoSuch' in reply:
                res.append(Violation('C10.property-not-applied', 'export',
                                     f'{m}.{pn}: export=True configured; described as {exp}: {listed}; read {m}:{exp} -> {reply!r}'))
        for (m, pn, v, ok, reply) in ctx.get('probes', ()):
            accepted = bool(reply) and reply.startswith('changed')
            if ok != accepted and reply and ('ReadOnly' not in reply):
                res.append(Violation('C10.configured-limits-not-used', 'accepts-outside' if accepted else 'rejects-inside',
                                     f'{m}.{pn}: change to {v!r} -> {reply!r}'))
        return res


def genmod_expname(pname):
    return pname if pname in ('value', 'status', 'target', 'pollinterval') else '_' + pname


CHECK = C10()
