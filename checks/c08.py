"""C08 -- activation and deactivation boundaries are exact under any interleaving

A real node (Server._processCfg, Dispatcher, poll threads, TCPRequestHandler
per connection) with generated modules whose values change at every poll and
through extra driver tasks; 1..3 scripted wire connections issue activate /
deactivate / *IDN? / close with global, module and parameter scopes.  The
oracle compares each connection's line stream with the ground-truth history
of the parameter cache.
"""
import threading
import time

from sim import env, genmod, nodeworld
from sim.harness import Check, Violation


def in_scope(scopes, mod, exp):
    return scopes['global'] or mod in scopes['mods'] or f'{mod}:{exp}' in scopes['params']


def new_scopes():
    return {'global': False, 'mods': set(), 'params': set()}


def apply_start(scopes, spec):
    if not spec:
        scopes['global'] = True
    elif ':' in spec:
        scopes['params'].add(spec)
    else:
        scopes['mods'].add(spec)


def apply_end(scopes, kind, spec):
    if kind in ('idn', 'close'):
        scopes['global'] = False
        scopes['mods'].clear()
        scopes['params'].clear()
    elif not spec:
        scopes['global'] = False
    elif ':' in spec:
        scopes['params'].discard(spec)
    else:
        scopes['mods'].discard(spec)
        for p in [p for p in scopes['params'] if p.startswith(spec + ':')]:
            scopes['params'].discard(p)


class C08(Check):
    ID = 'C08'
    MAX_VIRTUAL = 3000     # (a run which cannot end is judged: a request never answered is a violation)
    TRACE_FILES = ('protocol/dispatcher.py', 'modulebase.py')
    TIERS = {'quick': {'runs': 9000, 'wall': 75}, 'thorough': {'runs': 300000, 'wall': 800}}
    RULE = ('[12 % focus cases: a client which stops reading for 1.5..4 s behind a receive buffer of 64..400 bytes while updates flow, then sends requests; a quarter of the cases with failing application callbacks] ' 'case = 2 generated modules (poll threads changing values) + 0..2 extra driver tasks + 1..3 wire '
            'connections with generated activate/deactivate/*IDN?/close sequences over global, module and '
            'parameter scopes; distinct = different (case digest, schedule digest); non-trivial = at least one '
            'activation completed while >= 1 cache change happened between its request and the end of the run '
            'and the schedule had >= 1 decision among >= 2 runnable tasks')
    REAL = ['frappy.protocol.dispatcher.Dispatcher (activate/deactivate/_ident/broadcast)',
            'frappy.protocol.interface.tcp.TCPRequestHandler + RequestHandler.handle',
            'frappy.modulebase.Module (announceUpdate, poll thread), frappy.server.Server._processCfg, SecNode']
    STUB = ['socketserver accept loop (one handler task per accepted simulated connection)',
            'TCP sockets (sim.net stream endpoints with segmentation/latency)', 'hardware (fake driver)', 'clock']
    ASSUMPTIONS = ['an update is judged "after" the end of a scope only when its line follows the reply line that '
                   'ended the scope on that connection',
                   'ground truth of the cache = parameter callbacks (Module.addCallback), invoked by frappy inside '
                   'the module update lock; a message is matched to a cache state by its (value, timestamp)']
    PROBES = ('c08.client-stalled', 'c08.device-timestamp', 'fault.parameter-callback-raised', 'net.send-timeout', 'c08.activate-during-updates', 'c08.deactivate', 'c08.idn', 'c08.close', 'c08.param-scope',
              'c08.module-scope')

    def gen_case(self, rng, tier):
        specs = []
        # (names of which one is a prefix of the other: scopes are kept by name)
        modnames = rng.choice([['m0', 'm1'], ['m0', 'm01'], ['m10', 'm1']])
        parnames = rng.choice([['p0', 'p1'], ['p0', 'p01'], ['p10', 'p1']])
        for i in range(2):
            base = rng.choice(['Readable', 'Module', 'Readable'])
            spec = {'name': modnames[i], 'base': base, 'export': True, 'params': [], 'cmds': [],
                    'pollinterval': rng.choice([0.1, 0.3, 1.0]), 'slowinterval': rng.choice([0.1, 0.5, 2.0]),
                    'omit': rng.choice([None, 0, 0])}
            if base == 'Readable':
                spec['params'].append({'name': 'value', 'di': {'type': 'double'}, 'read': True, 'readonly': True,
                                       'default': None, 'init': 0.0, 'export': True})
            for j in range(rng.randrange(1, 3)):
                spec['params'].append({'name': parnames[j], 'di': {'type': 'int', 'min': -16777216, 'max': 16777216},
                                       'read': rng.random() < 0.7, 'readonly': True, 'default': 0, 'export': True,
                                       'unchanged': rng.choice(['default', 'always'])})
            if rng.random() < 0.3:
                spec['params'].append({'name': 'hid', 'di': {'type': 'int', 'min': 0, 'max': 100}, 'read': True,
                                       'readonly': True, 'default': 0, 'export': False})
            specs.append(spec)
        names = {s['name']: [p['name'] for p in s['params'] if p['export']] for s in specs}
        scripts = {}
        for s in specs:
            for p in s['params']:
                if p.get('read'):
                    scripts[f'{s["name"]}.read_{p["name"]}'] = [
                        [rng.choice([0, 0, 0.01, 0.05]), rng.choice(['inc', 'inc', 'inc', 'ok', 'secop', 'exc'])]
                        for _ in range(rng.randrange(1, 5))]
        nconn = rng.choice([1, 1, 2, 3])
        ops = []
        for c in range(nconn):
            t = 0.0
            for _ in range(rng.randrange(1, 7)):
                kind = rng.choice(['activate', 'activate', 'activate', 'activate', 'deactivate', 'deactivate', 'idn',
                                   'close', 'ping', 'ping'])
                spec = None
                if kind in ('activate', 'deactivate'):
                    r = rng.random()
                    m = rng.choice(list(names))
                    if r < 0.4:
                        spec = None
                    elif r < 0.7:
                        spec = m
                    else:
                        pn = rng.choice(names[m])
                        spec = f'{m}:{pn if pn in ("value", "status") else "_" + pn}'
                    if rng.random() < 0.05:
                        spec = rng.choice(['nomod', f'{m}:_nopar', f'{m}:value2'])
                ops.append({'c': c, 'kind': kind, 'spec': spec, 'dt': rng.choice([0, 0, 0, 0.001, 0.01, 0.1, 0.5])})
                if kind == 'close':
                    break
        nupd = rng.choice([0, 1, 2, 2, 3])
        updaters = []
        for u in range(nupd):
            seq = []
            for _ in range(rng.randrange(3, 25)):
                m = rng.choice(list(names))
                pn = rng.choice([p for p in names[m] if p != 'value'] or names[m])
                seq.append({'m': m, 'p': pn, 'how': rng.choice(['assign', 'assign', 'read', 'same', 'device_ts']),
                            'dt': rng.choice([0, 0, 0, 0.001, 0.02, 0.2])})
            updaters.append(seq)
        shape = {'p_switch': rng.choice([0.1, 0.3, 0.6]), 'line_gaps': rng.choice([0, 0, 8, 12, 15]),
                 'seg_bias': rng.choice([1.0, 0.7, 0.3]), 'lat_bias': rng.choice([1.0, 0.7, 0.4]),
                 'specs': specs, 'scripts': scripts, 'nconn': nconn, 'updaters': updaters,
                 'settle': rng.choice([1.0, 3.0])}
        if rng.random() < 0.25:
            # parameter callbacks of the application (plain functions, partial objects, callable instances) which fail
            # now and then: ignored by frappy, the update goes out all the same
            shape['cb_faults'] = {}
            for s_ in specs:
                for p_ in s_['params']:
                    if rng.random() < 0.5:
                        shape['cb_faults'][f'{s_["name"]}.{p_["name"]}'] = {
                            'exc': rng.choice(['OSError', 'KeyError', 'ValueError', 'TypeError']),
                            'every': rng.choice([1, 2, 3]), 'style': rng.choice(['function', 'partial', 'object'])}
        if rng.random() < 0.15:
            # focus: connections with specific scopes come and go at the same instant - a closing connection is
            # removed by its own handler thread while other connections subscribe to event names not seen before
            nconn = shape['nconn'] = rng.choice([2, 3, 3])
            ops = []
            allspecs = [m for m in names] + [f'{m}:{pn if pn in ("value", "status") else "_" + pn}'
                                             for m in names for pn in names[m]]
            rng.shuffle(allspecs)
            t0 = rng.choice([0.05, 0.1])
            opc = rng.random() < 0.5
            for c in range(nconn):
                first = rng.choice([0, 0.001])
                for k in range(rng.randrange(1, 4)):
                    ops.append({'c': c, 'kind': 'activate',
                                'spec': None if (opc and rng.random() < 0.5) or not allspecs else allspecs.pop(),
                                'dt': first if k == 0 else 0})
                if c < nconn - 1 or rng.random() < 0.5:
                    ops.append({'c': c, 'kind': 'close', 'spec': None, 'dt': max(0, t0 - first) if c == 0 else 0})
                else:
                    ops.append({'c': c, 'kind': 'activate', 'spec': allspecs.pop() if allspecs else None, 'dt': t0})
            # the later connections start their second round when the first one closes
            for c in range(1, nconn):
                mine = [o for o in ops if o['c'] == c]
                if len(mine) > 1:
                    mine[1]['dt'] = t0
            shape['line_gaps'] = rng.choice([3, 5, 8])
            shape['focus'] = True
            # (opc: global activations among the specific ones.  Pre-emption between byte code instructions - a
            # read-modify-write of shared state inside one line - was tried here (kernel option trace_opcodes) and
            # given up: runs did not replay in a fresh interpreter, see DESIGN.md 11)
        elif rng.random() < 0.12:
            # focus: a client which stops reading for a few seconds while updates flow (its receive buffer is small):
            # a send of the node may time out; afterwards the connection is either served or closed
            ops = [o for o in ops if o['c'] != 0]
            ops += [{'c': 0, 'kind': 'activate', 'spec': None, 'dt': 0},
                    {'c': 0, 'kind': 'stall', 'spec': None, 'dt': rng.choice([0, 0.05]),
                     'buf': rng.choice([64, 150, 400]), 'dur': rng.choice([1.5, 2.5, 4.0])},
                    {'c': 0, 'kind': rng.choice(['ping', 'activate', 'idn']), 'spec': None, 'dt': 0},
                    {'c': 0, 'kind': 'ping', 'spec': None, 'dt': 0.1}]
            m = rng.choice(list(names))
            pn = rng.choice([p for p in names[m] if p != 'value'] or names[m])
            shape['updaters'] = list(shape['updaters'])[:2] + [
                [{'m': m, 'p': pn, 'how': 'assign', 'dt': rng.choice([0.02, 0.1, 0.2])} for _ in range(30)]]
            shape['stall'] = True
        return {'shape': shape, 'ops': ops}

    def shrink_candidates(self, case):
        sh = case['shape']
        if sh['updaters']:
            for i in range(len(sh['updaters'])):
                c = dict(case)
                c['shape'] = dict(sh, updaters=sh['updaters'][:i] + sh['updaters'][i + 1:])
                yield c
            for i, seq in enumerate(sh['updaters']):
                if len(seq) > 1:
                    c = dict(case)
                    upd = list(sh['updaters'])
                    upd[i] = seq[:len(seq) // 2]
                    c['shape'] = dict(sh, updaters=upd)
                    yield c
        if sh['line_gaps']:
            c = dict(case)
            c['shape'] = dict(sh, line_gaps=0)
            yield c
        if sh['seg_bias'] < 1 or sh['lat_bias'] < 1:
            c = dict(case)
            c['shape'] = dict(sh, seg_bias=1.0, lat_bias=1.0)
            yield c

    # ------------------------------------------------------------------ run
    def main(self, sim, case, ctx):
        shape = case['shape']
        world = ctx['world'] = env.World(sim, shape['seg_bias'], shape['lat_bias'])
        drv = genmod.Driver(sim, shape['scripts'])
        node = nodeworld.Node(world, 'n', shape['specs'], drv)
        ctx['cleanup'] = [node.forget]
        node.watch_cache()
        if shape.get('cb_faults'):
            node.add_flaky_callbacks(shape['cb_faults'])
        ctx['initial'] = {k: (sim.next_seq(), v) for k, v in node.cache().items()}
        ctx['history'] = node.history
        conns = ctx['conns'] = []
        errors = ctx['task_errors'] = []
        counter = [1000]

        def conn_task(cidx):
            cl = nodeworld.RawClient(world)
            rec = {'client': cl, 'events': []}
            conns[cidx] = rec
            for op in [o for o in case['ops'] if o['c'] == cidx]:
                if op['dt']:
                    time.sleep(op['dt'])
                kind = op['kind']
                if kind == 'stall':
                    sim.count('c08.client-stalled')
                    cl.ep.rcvbuf = op['buf']
                    time.sleep(op['dur'])
                    cl.ep.rcvbuf = None
                    continue
                if kind == 'close':
                    rec['events'].append({'kind': 'close', 'spec': None, 'send_seq': sim.next_seq(),
                                          'nlines': len(cl.lines)})
                    cl.close()
                    sim.count('c08.close')
                    return
                text = {'activate': 'activate', 'deactivate': 'deactivate', 'idn': '*IDN?', 'ping': 'ping x'}[kind]
                if op.get('spec') and kind in ('activate', 'deactivate'):
                    text += ' ' + op['spec']
                ev = {'kind': kind, 'spec': op.get('spec'), 'send_seq': sim.next_seq(), 'nlines': len(cl.lines)}
                rec['events'].append(ev)
                r = cl.request(text, timeout=60)
                if r is None:
                    ev['reply'] = None
                    ev['eof'] = cl.eof
                    return
                ev['reply_seq'], ev['reply_t'], line = r
                ev['reply'] = line.raw.decode('latin-1')
                ev['reply_idx'] = line.idx
            rec['finished'] = True

        def updater(seq):
            for st in seq:
                if st['dt']:
                    time.sleep(st['dt'])
                mobj = node.module(st['m'])
                try:
                    if st['how'] == 'read':
                        getattr(mobj, 'read_' + st['p'])()
                    elif st['how'] == 'same':
                        setattr(mobj, st['p'], getattr(mobj, st['p']))
                    elif st['how'] == 'device_ts':
                        # a value stamped by the device, whose clock has a resolution of 1 s and lags behind
                        counter[0] += 1
                        sim.count('c08.device-timestamp')
                        mobj.announceUpdate(st['p'], counter[0], timestamp=float(int(time.time())))
                    else:
                        counter[0] += 1
                        setattr(mobj, st['p'], counter[0])
                except Exception as e:   # noqa
                    if type(e).__name__ not in ('HardwareError', 'ZeroDivisionError'):
                        errors.append(f'updater: {e!r}')

        tasks = []
        for c in range(shape['nconn']):
            conns.append(None)
            tasks.append(threading.Thread(target=conn_task, args=(c,), name=f'client{c}'))
        for seq in shape['updaters']:
            tasks.append(threading.Thread(target=updater, args=(seq,), name='updater'))
        for t in tasks:
            t.start()
        for t in tasks:
            t.join()
        # quiescence: stop every update source, then let in-flight messages arrive
        node.secnode.shutdown_modules()
        time.sleep(shape['settle'])
        ctx['final'] = node.cache()
        ctx['final_seq'] = sim.next_seq()
        for rec in conns:
            if rec and not rec['client'].closed:
                rec['client'].drain(quiet=2.0, maxtime=20)
        ctx['handlers_done'] = [h['done'] for h in world.handlers]
        # what the dispatcher still holds of connections whose handler has finished (closed and removed)
        disp = node.dispatcher
        leaks = ctx['leaks'] = []
        for h in world.handlers:
            if not h['done']:
                continue
            hd = h['handler']
            where = []
            if hd in disp._active_connections:
                where.append('all events')
            where += [k for k, v in disp._subscriptions.items() if hd in v]
            if hd in disp._connections:
                where.append('connection list')
            if where or h.get('exc') or h.get('sends_after_done'):
                leaks.append({'conn': h['idx'], 'where': where, 'exc': h.get('exc'), 'done_seq': h.get('done_seq'),
                              'sends': [(q, repr(d)[:120]) for q, d in h.get('sends_after_done', ())[:5]]})
        ctx['server_sent'] = [[(t, q) for (t, q, _d) in world.handlers[rec['client'].hidx]['sock'].sent_log]
                              if rec else [] for rec in conns]
        ctx['exported'] = {m: [p.export for p in node.module(m).parameters.values() if p.export]
                           for m in node.secnode.export}

    def deadlock_is_violation(self, sim, case, ctx):
        """the run cannot end: a request that never got its reply (e.g. handler and update thread waiting for each
        other's lock) is a violation; anything else is a problem of the harness"""
        for cidx, rec in enumerate(ctx.get('conns') or ()):
            for ev in (rec or {}).get('events', ()):
                if ev['kind'] != 'close' and ev.get('reply') is None:
                    waits = sim.failure[1] if sim.failure[0] == 'deadlock' else [(n, st, fr[-3:]) for n, st, fr in sim.failure[1]]
                    return Violation('C08.no-reply', 'request-never-answered',
                                     f'{sim.failure[0]}: conn {cidx} sent {ev["kind"]} {ev.get("spec") or ""} and never got a '
                                     f'reply; tasks: {str(waits)[:1200]}')
        return None

    # ------------------------------------------------------------------ oracle
    def observation(self, sim, case, ctx):
        return [[(s, ln.raw) for s, _t, ln in rec['client'].lines] for rec in ctx.get('conns', ()) if rec]

    def nontrivial(self, sim, case, ctx):
        hist = ctx.get('history') or []
        for rec in ctx.get('conns', ()):
            for ev in (rec or {}).get('events', ()):
                if ev['kind'] == 'activate' and (ev.get('reply') or '').startswith('active'):
                    if any(h['seq'] > ev['send_seq'] for h in hist):
                        return sim.nchoice2 >= 1
        return False

    def judge(self, sim, case, ctx):
        res = []
        hist = ctx['history']
        exported = ctx['exported']
        for msg in ctx['task_errors']:
            res.append(Violation('C08.updater-raised', 'updater', msg))
        # cache states per exported parameter, in order
        states = {}
        for key, (seq, st) in ctx['initial'].items():
            states[key] = [(seq, st)]
        for h in hist:
            if h['export']:
                lst = states.setdefault((h['mod'], h['export']), [])
                if lst and h['seq'] <= lst[0][0] and len(lst) == 1:
                    continue        # a change made before the initial state was taken is contained in it
                if lst and lst[-1][1] == h['state']:
                    continue        # the same announcement seen twice (value and timestamp identical)
                lst.append((h['seq'], h['state']))
        final = ctx['final']

        def find_state(key, st):
            """index of the cache state a message shows, or None"""
            for i, (_seq, s) in enumerate(states.get(key, ())):
                # (the text of an error changes while the exception travels up the call chain: not compared)
                if s[0] == st[0] and s[1] == st[1] and s[-1] == st[-1]:
                    return i
            return None

        def server_sent(cidx):
            # one sendall per message: the i-th line a client received is the i-th send of its handler
            return ctx['server_sent'][cidx]

        # after a disconnect nothing more is delivered: the dispatcher must have forgotten the connection
        for lk in ctx.get('leaks', ()):
            if lk['exc']:
                res.append(Violation('C08.update-after-close', 'handler-raised',
                                     f'the handler of connection {lk["conn"]} ended with {lk["exc"]}; the dispatcher still '
                                     f'holds it for {lk["where"]}'))
            elif lk['where']:
                res.append(Violation('C08.update-after-close', 'still-registered',
                                     f'connection {lk["conn"]} was closed and its handler has finished, but the dispatcher '
                                     f'still holds it for {lk["where"]} (messages sent to it since: {lk["sends"][:2]})'))
        for cidx, rec in enumerate(ctx['conns']):
            if rec is None:
                continue
            cl = rec['client']
            lines = cl.lines
            # a connection is either served or disconnected
            for ev in rec['events']:
                if ev['kind'] != 'close' and ev.get('reply') is None and ev.get('eof') is False:
                    done = ctx['handlers_done'][cl.hidx] if cl.hidx < len(ctx.get('handlers_done', ())) else None
                    res.append(Violation('C08.no-reply', 'connection-still-open',
                                         f'conn {cidx}: {ev["kind"]} {ev.get("spec") or ""} got no reply within 60 s '
                                         f'although the node has not closed the connection (handler finished: {done})'))
            scopes = new_scopes()
            # walk through the events; between events walk through the lines
            boundaries = []     # (line index where it takes effect, 'start'|'end', event)
            for ev in rec['events']:
                kind = ev['kind']
                ok = ev.get('reply') is not None
                if kind == 'activate':
                    # the scope may deliver from the moment the request is sent
                    boundaries.append((ev['nlines'], 'start', ev))
                    if ok and not ev['reply'].startswith('active'):
                        boundaries.append((ev.get('reply_idx', ev['nlines']), 'failed', ev))
                elif kind in ('deactivate', 'idn'):
                    if ok and 'reply_idx' in ev and not ev['reply'].startswith('error_'):
                        boundaries.append((ev['reply_idx'], 'end', ev))
                elif kind == 'close':
                    boundaries.append((ev['nlines'], 'end', ev))
            bi = 0
            boundaries.sort(key=lambda b: b[0])
            ended_by = {}           # key -> the event that took the parameter out of every scope
            all_keys = [(m, e) for m, exps in exported.items() for e in exps]

            def end_scope(ev):
                before = [k for k in all_keys if in_scope(scopes, *k)]
                apply_end(scopes, ev['kind'], ev['spec'])
                for k in before:
                    if not in_scope(scopes, *k):
                        ended_by[k] = ev
                        epoch.pop(k, None)      # a later activation starts a new series of messages
            last_msg = {}           # key -> (state index, line idx) of the last message per parameter
            epoch = {}              # key -> state index of the last message while the key stayed in scope
            fresh = {}              # id(activate event) -> keys which entered a scope with it
            delivered_in = {}       # id(ev) -> set of keys delivered between send and reply of an activate
            open_act = None
            for (seq, t, ln) in lines:
                while bi < len(boundaries) and boundaries[bi][0] <= ln.idx:
                    _i, what, ev = boundaries[bi]
                    bi += 1
                    if what == 'start':
                        before = {k for k in all_keys if in_scope(scopes, *k)}
                        apply_start(scopes, ev['spec'])
                        open_act = ev
                        delivered_in[id(ev)] = {}
                        # parameters entering a scope with this request: their series of messages starts with its
                        # snapshot (a straggler of an earlier scope may still arrive before it)
                        fresh[id(ev)] = {k for k in all_keys if in_scope(scopes, *k)} - before
                        for k in fresh[id(ev)]:
                            epoch.pop(k, None)
                    elif what == 'failed':
                        # an activate that was refused never opened a scope
                        sp = ev['spec']
                        if sp and ':' in sp:
                            scopes['params'].discard(sp)
                        elif sp:
                            scopes['mods'].discard(sp)
                    else:
                        end_scope(ev)
                if open_act is not None and ln.idx >= open_act.get('reply_idx', 1 << 60):
                    open_act = None
                if ln.action not in ('update', 'error_update'):
                    continue
                if not ln.utf8 or not ln.json_ok or ':' not in (ln.spec or ''):
                    res.append(Violation('C08.malformed-update', 'line', f'conn {cidx}: {ln!r}'))
                    continue
                mod, exp = ln.spec.split(':', 1)
                key = (mod, exp)
                st = nodeworld.msg_state(ln)
                idx = find_state(key, st)
                if idx is not None and key in epoch and idx <= epoch[key]:
                    # the same state may be held several times: take the first occurrence not yet delivered
                    for i2 in range(epoch[key] + 1, len(states.get(key, ()))):
                        s2 = states[key][i2][1]
                        if s2[0] == st[0] and s2[1] == st[1] and s2[-1] == st[-1]:
                            if open_act is None:
                                idx = i2
                            break
                if not in_scope(scopes, mod, exp):
                    if key not in ended_by:
                        res.append(Violation('C08.cross-talk', 'unsolicited',
                                             f'conn {cidx}: line {ln.idx} {ln!r} arrived although this connection '
                                             f'never had a (successfully activated) scope covering {ln.spec}'))
                        continue
                    # was the cache change announced before the node sent the reply that ended the
                    # scope (message in flight inside the dispatcher) or after it (subscription still there)?
                    ev = ended_by[key]
                    sent = server_sent(cidx)
                    reply_sent_seq = sent[ev['reply_idx']][1] if ev.get('reply_idx') is not None and \
                        ev['reply_idx'] < len(sent) else None
                    hseq = states[key][idx][0] if idx is not None else None
                    if ev['kind'] == 'close':
                        site = 'after-close'
                    elif hseq is not None and reply_sent_seq is not None and hseq < reply_sent_seq:
                        site = 'in-flight'
                    else:
                        site = 'persistent'
                    res.append(Violation(f'C08.update-after-{ev["kind"]}', site,
                                         f'conn {cidx}: line {ln.idx} {ln!r} arrived after the reply {ev["reply"]!r} '
                                         f'(line {ev.get("reply_idx")}) although no scope of this connection covers '
                                         f'{ln.spec} any more; cache change seq {hseq}, reply sent at seq '
                                         f'{reply_sent_seq}'))
                    continue
                if idx is None:
                    if open_act is not None:
                        delivered_in[id(open_act)][key] = None
                    res.append(Violation('C08.phantom-state', 'snapshot' if open_act else 'update',
                                         f'conn {cidx}: {ln!r} shows a state the cache never held; history of '
                                         f'{key}: {states.get(key)[-4:]}'))
                    continue
                if open_act is not None and key in last_msg and idx < last_msg[key][0]:
                    res.append(Violation(
                        'C08.stale-snapshot', 'overtaken',
                        f'conn {cidx}: snapshot line {ln.idx} {ln!r} of activate {open_act["spec"]!r} shows cache state '
                        f'#{idx} although line {last_msg[key][1]} already delivered the newer state #{last_msg[key][0]}'))
                # while a parameter stays in scope every change of its cache is delivered: no state is skipped
                # (the node sends one message per announced change, in order, inside the update lock)
                if open_act is not None and key in fresh.get(id(open_act), ()):
                    epoch.pop(key, None)
                if key in epoch and idx > epoch[key] + 1:
                    res.append(Violation(
                        'C08.update-missed', 'snapshot' if open_act else 'stream',
                        f'conn {cidx}: line {ln.idx} {ln!r} shows cache state #{idx} of {key}, the previous message '
                        f'for it showed #{epoch[key]}: the states in between {states[key][epoch[key] + 1:idx][:3]} were '
                        f'never delivered although the parameter stayed in an active scope'))
                epoch[key] = max(idx, epoch.get(key, -1))
                last_msg[key] = (idx, ln.idx)
                if open_act is not None:
                    delivered_in[id(open_act)][key] = idx
            # remaining boundaries (events after the last line)
            while bi < len(boundaries):
                _i, what, ev = boundaries[bi]
                bi += 1
                if what == 'start':
                    apply_start(scopes, ev['spec'])
                    delivered_in.setdefault(id(ev), {})
                elif what == 'end':
                    apply_end(scopes, ev['kind'], ev['spec'])
            # snapshot completeness
            for ev in rec['events']:
                if ev['kind'] != 'activate' or not (ev.get('reply') or '').startswith('active'):
                    continue
                sp = ev['spec']
                if not sp:
                    need = [(m, e) for m, exps in exported.items() for e in exps]
                    sim.counters['c08.global-scope'] = sim.counters.get('c08.global-scope', 0) + 1
                elif ':' in sp:
                    need = [tuple(sp.split(':', 1))]
                    sim.counters['c08.param-scope'] = sim.counters.get('c08.param-scope', 0) + 1
                else:
                    need = [(sp, e) for e in exported.get(sp, ())]
                    sim.counters['c08.module-scope'] = sim.counters.get('c08.module-scope', 0) + 1
                got = delivered_in.get(id(ev), {})
                missing = [k for k in need if k not in got]
                if missing:
                    res.append(Violation('C08.snapshot-incomplete', 'missing',
                                         f'conn {cidx}: activate {sp!r} replied {ev["reply"]!r} but no update for '
                                         f'{missing} arrived before the reply'))
                if any(h['seq'] > ev['send_seq'] and h['seq'] < ev.get('reply_seq', 0) for h in hist):
                    sim.counters['c08.activate-during-updates'] = \
                        sim.counters.get('c08.activate-during-updates', 0) + 1
            for ev in rec['events']:
                if ev['kind'] == 'deactivate' and ev.get('reply'):
                    sim.counters['c08.deactivate'] = sim.counters.get('c08.deactivate', 0) + 1
                if ev['kind'] == 'idn' and ev.get('reply'):
                    sim.counters['c08.idn'] = sim.counters.get('c08.idn', 0) + 1
            # stale-last: scopes still active at quiescence must show the final cache state
            if not cl.closed and rec.get('finished'):
                for (mod, exps) in exported.items():
                    for exp in exps:
                        if not in_scope(scopes, mod, exp):
                            continue
                        key = (mod, exp)
                        lm = last_msg.get(key)
                        fidx = find_state(key, final[key])
                        if lm is None:
                            res.append(Violation('C08.snapshot-incomplete', 'nothing',
                                                 f'conn {cidx}: scope covers {key} but no message ever arrived'))
                        elif fidx is not None and lm[0] != fidx:
                            newer = lm[0] < fidx
                            res.append(Violation(
                                'C08.stale-last' if newer else 'C08.future-last',
                                'final',
                                f'conn {cidx}: at quiescence the last message for {key} (line {lm[1]}) shows cache '
                                f'state #{lm[0]} {states[key][lm[0]]} but the cache holds #{fidx} {states[key][fidx]}'))
        return res


CHECK = C08()
