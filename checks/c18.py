"""C18 -- linked parameters stay mutually consistent

A real node with generated modules using the convenience parameter kinds:
StructParam (with combined read/write methods, or with member methods),
FloatEnumParam (generated label sets), limit parameters (min / max / limits)
and 1..3 HasOutputModule controllers on one HasControlledBy output.
Histories of operations are issued both by a wire client task and by a driver
task (the poll threads run as well) and the invariants are judged at
quiescent points: after every operation, when neither party is active.
"""
import json
import threading
import time

from sim import env, nodeworld
from sim.harness import Check, Violation

from frappy.errors import HardwareError, RangeError
from frappy.core import Drivable, FloatRange, IntRange, Limit, Module, Parameter, Writable
from frappy.extparams import FloatEnumParam, StructParam
from frappy.mixins import HasControlledBy, HasOutputModule

PREFIX = {'u': 1e-6, 'm': 1e-3, '': 1.0, 'k': 1e3}


def label_value(label):
    num = ''.join(c for c in label if c in '0123456789.')
    pre = label[len(num):-1]
    return float(num) * PREFIX[pre]


class C18(Check):
    ID = 'C18'
    TRACE_FILES = ('extparams.py', 'mixins.py', 'modulebase.py')
    TIERS = {'quick': {'runs': 12000, 'wall': 70}, 'thorough': {'runs': 300000, 'wall': 800}}
    RULE = ('[up to two other clients subscribe and leave all the time; 40 % of the limit changes take 0.05 / 0.2 s with a concurrent driver-side write of the limited value] ' 'case = generated layout (struct with 2..3 members, combined or member access methods; float-enum label set; '
            'limit configuration min/max/limits; 1..3 controllers on one output) + history of <= 25 operations issued by '
            'a wire client (change/read of struct, member, float, index, limits incl. inverted, targets) or by the driver '
            '(assignments, reads), 20 % of the struct operations with a one-shot hardware fault, 30 % of struct/float-enum '
            'operations with a concurrent driver-side assignment (executed for index writes and combined-access structs); distinct = different (case digest, schedule digest); non-trivial = >= 4 operations '
            'touching >= 2 of the linked kinds')
    REAL = ['frappy.extparams.StructParam / FloatEnumParam', 'frappy.params.Limit + Module.checkLimits',
            'frappy.mixins.HasControlledBy / HasOutputModule', 'frappy.modulebase (callbacks, wrappers)',
            'Dispatcher + TCPRequestHandler for the client side']
    STUB = ['hardware (registers inside the generated classes)', 'TCP (sim.net)', 'clock']
    ASSUMPTIONS = ['invariants are judged after each operation, when client and driver are idle (the poll thread may be '
                   'running: struct/member agreement is read under the module\'s access lock)',
                   'closest allowed value: ties may go either way']
    PROBES = ('c18.struct-op', 'c18.value-written-during-limit-change', 'c18.subscriber-churn', 'c18.floatenum-op', 'c18.limit-op', 'c18.inverted-limits', 'c18.control-op',
              'c18.driver-op', 'c18.wire-op', 'c18.takeover', 'c18.concurrent-driver-assignment', 'fault.hw-read', 'fault.hw-write', 'c18.stale-controller-output', 'c18.second-output-op', 'c18.concurrent-takeover', 'fault.hw-switch-off')

    def gen_case(self, rng, tier):
        members = rng.sample(['a', 'b', 'c'], rng.choice([2, 3]))
        labels = rng.sample(['500uV', '2mV', '20mV', '0.1V', '1V', '5V', '1kV'], rng.randrange(2, 6))
        shape = {'p_switch': rng.choice([0.1, 0.3]), 'line_gaps': rng.choice([0, 0, 10]),
                 'members': members, 'struct_rw': rng.random() < 0.5, 'labels': labels,
                 'limits': rng.choice(['min', 'max', 'minmax', 'limits']), 'nctl': rng.choice([1, 2, 3]),
                 'poll': rng.random() < 0.5, 'split': rng.random() < 0.4, 'second_output': rng.random() < 0.5,
                 'fe_hw_max': rng.randrange(len(labels)) if rng.random() < 0.4 else None,
                 'switch_time': rng.choice([0, 0, 0.05, 0.25]),
                 # other clients subscribe and drop their connection all the time
                 'churn': rng.choice([0, 0, 1, 2])}
        ops = []
        for _ in range(rng.randrange(3, 26 if tier == 'thorough' else 18)):
            who = rng.choice(['wire', 'wire', 'driver'])
            r = rng.random()
            if r < 0.3:
                k = rng.choice(['struct', 'member', 'read_struct', 'read_member'])
                op = {'group': 'struct', 'kind': k, 'm': rng.choice(members),
                      'v': {m: round(rng.random() * 100, 2) for m in members}, 'mv': round(rng.random() * 100, 2)}
                if rng.random() < 0.3:
                    op['v'] = {m: op['v'][m] for m in rng.sample(members, rng.randrange(1, len(members) + 1))}
                if rng.random() < 0.2:
                    # the hardware fails once during this operation, at this member (or at the combined access)
                    op['fail'] = rng.choice(members)
            elif r < 0.5:
                k = rng.choice(['float', 'index', 'read'])
                op = {'group': 'fe', 'kind': k, 'v': rng.choice([0.0, 1e-4, 0.0012, 0.011, 0.3, 0.55, 0.9, 3.0, 700.0, 2000.0]),
                      'i': rng.randrange(len(labels))}
            elif r < 0.75:
                k = rng.choice(['x', 'x', 'lim'])
                op = {'group': 'limit', 'kind': k, 'v': round(rng.random() * 120 - 10, 2),
                      'lo': round(rng.random() * 100, 1), 'hi': round(rng.random() * 100, 1)}
                if rng.random() < 0.25:
                    # a limit of exactly zero (a bipolar quantity restricted to one sign), values on both sides of it
                    if rng.random() < 0.5:
                        op['lo'], op['hi'] = 0.0, rng.choice([5.0, 50.0])
                    else:
                        op['lo'], op['hi'] = rng.choice([-8.0, -50.0]), 0.0
                    op['v'] = rng.choice([-9.0, -0.5, 0.5, 7.0, 0.0])
                elif rng.random() < 0.4:
                    op['lo'], op['hi'] = max(op['lo'], op['hi']) + 1, min(op['lo'], op['hi'])
                op['which'] = rng.choice(['min', 'max'])
            else:
                op = {'group': 'control', 'kind': rng.choice(['ctl', 'ctl', 'out', 'stale', 'ctlb', 'outb', 'ctlpair']),
                      'c': rng.randrange(shape['nctl']),
                      'v': round(rng.random() * 100, 1)}
                if op['kind'] in ('ctl', 'out') and rng.random() < 0.2:
                    op['switch_fail'] = True     # switching off the controller that loses the control fails once
                if op['kind'] == 'ctlpair':
                    # two clients hand the control to two different controllers at the same moment
                    op['c2'] = (op['c'] + 1 + rng.randrange(max(1, shape['nctl'] - 1))) % shape['nctl']
                    op['v2'] = round(rng.random() * 100, 1)
                    if shape['nctl'] < 2:
                        op['kind'] = 'ctl'
            op['who'] = who
            if op['group'] == 'limit' and op['kind'] == 'lim' and rng.random() < 0.4:
                # the hardware takes its time to store the new limit; meanwhile a driver thread sets a new value
                op['also'] = {'kind': 'x', 'v': rng.choice([op['v'], op['lo'] + 0.5, op['lo'] - 0.5, op['hi'] + 0.5,
                                                            op['hi'] - 0.5])}
                op['lim_time'] = rng.choice([0.05, 0.2])
            if op['group'] in ('struct', 'fe') and rng.random() < 0.3:
                # at the same time a driver thread publishes a change of its own by assignment
                op['also'] = rng.choice([{'kind': 'idx', 'i': rng.randrange(len(labels))},
                                         {'kind': 'member', 'm': rng.choice(members), 'mv': round(rng.random() * 100, 2)}])
            ops.append(op)
        return {'shape': shape, 'ops': ops}

    # ------------------------------------------------------------------ run
    def main(self, sim, case, ctx):
        shape = case['shape']
        world = ctx['world'] = env.World(sim)
        members = shape['members']
        hw = {'st': {m: 1.0 for m in members}}

        def hwfault(access, member=None):
            """one-shot hardware fault armed by an operation: the access of one member (or the combined access) fails"""
            f = hw.get('fail')
            if f and f[0] == access and (member is None or f[1] == member):
                hw['fail'] = None
                sim.count('fault.hw-' + access)
                raise HardwareError(f'simulated fault on {access} of {member or "struct"}')

        ns = {'__module__': __name__}
        ns['st'] = StructParam('struct', {m: Parameter(f'member {m}', FloatRange(0, 100)) for m in members},
                               prefix='st_', readonly=False)
        if shape['struct_rw']:
            def read_st(self):
                hwfault('read')
                return dict(hw['st'])

            def write_st(self, value):
                hwfault('write')
                hw['st'] = dict(value)
                return dict(hw['st'])
            ns['read_st'] = read_st
            ns['write_st'] = write_st
        else:
            for m in members:
                def rf(self, m=m):
                    hwfault('read', m)
                    return hw['st'][m]

                def wf(self, value, m=m):
                    hwfault('write', m)
                    hw['st'][m] = value
                    return value
                ns[f'read_st_{m}'] = rf
                ns[f'write_st_{m}'] = wf
        ns['fe'] = FloatEnumParam('float enum', list(shape['labels']), 'V')
        if shape.get('fe_hw_max') is not None:
            # the hardware does not take every range: it reports back the one it really took
            def write_fe_idx(self, value):
                return min(int(value), shape['fe_hw_max'])
            ns['write_fe_idx'] = write_fe_idx
        ns['x'] = Parameter('limited', FloatRange(-1000, 1000), default=50, readonly=False)
        lim = shape['limits']
        if lim in ('min', 'minmax'):
            ns['x_min'] = Limit()
        if lim in ('max', 'minmax'):
            ns['x_max'] = Limit()
        if lim == 'limits':
            ns['x_limits'] = Limit()

        def write_x(self, value):
            hw.setdefault('xlog', []).append((value, self._limits_now()))
            return value

        def write_lim(self, value):
            if hw.get('lim_time'):
                time.sleep(hw['lim_time'])
            return value
        for ln_ in ('x_min', 'x_max', 'x_limits'):
            if ln_ in ns:
                ns['write_' + ln_] = write_lim

        def _limits_now(self):
            if 'x_limits' in self.parameters:
                return tuple(self.x_limits)
            return (self.x_min if 'x_min' in self.parameters else float('-inf'),
                    self.x_max if 'x_max' in self.parameters else float('inf'))
        ns['write_x'] = write_x
        ns['_limits_now'] = _limits_now
        ns['enablePoll'] = shape['poll']
        if shape.get('split'):
            # the parameter and a hand-written check hook live in a base class, the limit parameters are declared
            # in the subclass: hook and limits both apply
            def check_x(self, value):
                if value == 77.77:
                    raise RangeError('x = 77.77 is forbidden')
            base_ns = {'__module__': __name__, 'x': ns.pop('x'), 'check_x': check_x}
            LBase = type('LinkedBase', (Module,), base_ns)
            LMod = type('LinkedMod', (LBase,), ns)
        else:
            LBase = None
            LMod = type('LinkedMod', (Module,), ns)

        class Out(HasControlledBy, Writable):
            enablePoll = False

            def read_value(self):
                return self.target

            def write_target(self, value):
                self.self_controlled()
                return value

        class Ctl(HasOutputModule, Writable):
            enablePoll = False

            def read_value(self):
                return self.target

            def write_target(self, value):
                self.activate_control()
                self.output_module.update_target(self.name, value)
                return value

            def set_control_active(self, active):
                # the hook for switching the control loop of the hardware: that takes a moment - and may fail
                if shape.get('switch_time'):
                    time.sleep(shape['switch_time'])
                if not active and hw.get('switch_fail'):
                    hw['switch_fail'] = None
                    sim.count('fault.hw-switch-off')
                    raise HardwareError(f'{self.name}: no reply when switching off the loop')
                super().set_control_active(active)
        ctx['cleanup'] = [lambda: env.forget_classes(LMod, Out, Ctl)]
        cfg = {'m': {'cls': LMod, 'description': 'linked parameters', 'pollinterval': 0.5, 'slowinterval': 0.5},
               'out': {'cls': Out, 'description': 'output'}}
        for i in range(shape['nctl']):
            cfg[f'ctl{i}'] = {'cls': Ctl, 'description': f'controller {i}', 'output_module': 'out'}
        if shape.get('second_output'):
            # a second, independent output with a controller of its own in the same node
            cfg['outb'] = {'cls': Out, 'description': 'second output'}
            cfg['ctlb'] = {'cls': Ctl, 'description': 'controller of the second output', 'output_module': 'outb'}
        srv = world.make_server('n', cfg)
        srv._processCfg()
        world.serve(srv)
        mod = srv.secnode.modules['m']
        out = srv.secnode.modules['out']
        ctls = [srv.secnode.modules[f'ctl{i}'] for i in range(shape['nctl'])]
        outb = srv.secnode.modules.get('outb')
        ctlb = srv.secnode.modules.get('ctlb')
        cl = nodeworld.RawClient(world)
        steps = ctx['steps'] = []
        vdict = {i: label_value(lb) for i, lb in enumerate(shape['labels'])}
        ctx['vdict'] = vdict

        def snapshot():
            with mod.accessLock:
                st = dict(mod.st)
                mem = {m: getattr(mod, f'st_{m}') for m in members}
                fe = mod.parameters['fe'].value      # the cached value (what clients see), not the computed attribute
                idx = int(mod.fe_idx)
                x = mod.x
                lims = mod._limits_now()
            return {'st': st, 'mem': mem, 'fe': fe, 'idx': idx, 'x': x, 'lims': lims,
                    'active_b': None if ctlb is None else bool(ctlb.control_active),
                    'controlled_by_b': None if outb is None else str(
                        outb.controlled_by.name if hasattr(outb.controlled_by, 'name') else outb.controlled_by),
                    'active': [bool(c.control_active) for c in ctls],
                    'controlled_by': str(out.controlled_by.name if hasattr(out.controlled_by, 'name') else out.controlled_by),
                    'out_target': out.target}

        def wire(text):
            r = cl.request(text, timeout=60)
            return None if r is None else r[2].raw.decode('latin-1')[:200]

        churn_stop = [False]
        churners = []

        def churn(i):
            while not churn_stop[0]:
                c = nodeworld.RawClient(world)
                c.request('activate', timeout=60)
                sim.count('c18.subscriber-churn')
                time.sleep(0.02 + 0.01 * i)
                c.close()
                time.sleep(0.01)
        if shape.get('churn'):
            cl.request('activate', timeout=60)
            for i in range(shape['churn']):
                churners.append(threading.Thread(target=churn, args=(i,), name=f'churn{i}'))
                churners[-1].start()

        for op in case['ops']:
            before = snapshot()
            hw_before = dict(hw['st'])
            reply = None
            exc = None
            g, k, who = op['group'], op['kind'], op['who']
            sim.count('c18.wire-op' if who == 'wire' else 'c18.driver-op')
            if op.get('fail') and not (op.get('also') and ((g == 'fe' and k == 'index') or (g == 'struct' and shape['struct_rw']))):
                hw['fail'] = ('read' if k.startswith('read') else 'write', op['fail'])
            side = None
            # concurrency only where frappy promises consistency by construction: propagation between index and
            # float and between struct and members runs inside the update lock of the module; the generated member
            # access of a struct without combined methods is guarded by the access lock only, which a thread
            # publishing by assignment does not take
            also_ok = (g == 'fe' and k == 'index') or (g == 'struct' and shape['struct_rw']) or (g == 'limit' and k == 'lim')
            hw['lim_time'] = op.get('lim_time')
            if op.get('also') and also_ok and not op.get('fail'):
                def concurrent(also=op['also']):
                    sim.yield_point()
                    try:
                        if also['kind'] == 'idx':
                            mod.fe_idx = also['i']
                        elif also['kind'] == 'x':
                            time.sleep(0.01)
                            sim.count('c18.value-written-during-limit-change')
                            mod.write_x(also['v'])
                        else:
                            hw['st'][also['m']] = also['mv']
                            setattr(mod, f'st_{also["m"]}', also['mv'])
                    except Exception:   # noqa
                        pass
                sim.count('c18.concurrent-driver-assignment')
                side = threading.Thread(target=concurrent, name='driver-side')
                side.start()
            try:
                if g == 'struct':
                    sim.count('c18.struct-op')
                    full = dict(before['st'])
                    full.update(op['v'])
                    if k == 'struct':
                        if who == 'wire':
                            reply = wire(f'change m:_st {json.dumps(op["v"])}')
                        else:
                            mod.st = full
                            hw['st'] = dict(full)
                    elif k == 'member':
                        if who == 'wire':
                            reply = wire(f'change m:_st_{op["m"]} {json.dumps(op["mv"])}')
                        else:
                            hw['st'][op['m']] = op['mv']
                            setattr(mod, f'st_{op["m"]}', op['mv'])
                    elif k == 'read_struct':
                        hw['st'][op['m']] = op['mv']        # the hardware changed on its own
                        if who == 'wire':
                            reply = wire('read m:_st')
                        else:
                            mod.read_st()
                    else:
                        hw['st'][op['m']] = op['mv']
                        if who == 'wire':
                            reply = wire(f'read m:_st_{op["m"]}')
                        else:
                            getattr(mod, f'read_st_{op["m"]}')()
                elif g == 'fe':
                    sim.count('c18.floatenum-op')
                    if k == 'float':
                        if who == 'wire':
                            reply = wire(f'change m:_fe {json.dumps(op["v"])}')
                        else:
                            mod.write_fe(op['v'])
                    elif k == 'index':
                        if who == 'wire':
                            reply = wire(f'change m:_fe_idx {op["i"]}')
                        else:
                            mod.fe_idx = op['i']
                    else:
                        reply = wire('read m:_fe') if who == 'wire' else None
                elif g == 'limit':
                    sim.count('c18.limit-op')
                    if k == 'x':
                        if who == 'wire':
                            reply = wire(f'change m:_x {json.dumps(op["v"])}')
                        else:
                            mod.write_x(op['v'])
                    else:
                        if shape['limits'] == 'limits':
                            if op['lo'] > op['hi']:
                                sim.count('c18.inverted-limits')
                            if who == 'wire':
                                reply = wire(f'change m:_x_limits {json.dumps([op["lo"], op["hi"]])}')
                            else:
                                mod.write_x_limits((op['lo'], op['hi']))
                        else:
                            which = op['which'] if f'x_{op["which"]}' in mod.parameters else \
                                ('min' if 'x_min' in mod.parameters else 'max')
                            if who == 'wire':
                                reply = wire(f'change m:_x_{which} {json.dumps(op["lo"])}')
                            else:
                                getattr(mod, f'write_x_{which}')(op['lo'])
                else:
                    sim.count('c18.control-op')
                    if op.get('switch_fail'):
                        hw['switch_fail'] = True
                    if k in ('ctlb', 'outb'):
                        sim.count('c18.second-output-op')
                        if ctlb is None:
                            pass
                        elif k == 'ctlb':
                            if who == 'wire':
                                reply = wire(f'change ctlb:target {json.dumps(op["v"])}')
                            else:
                                ctlb.write_target(op['v'])
                        elif who == 'wire':
                            reply = wire(f'change outb:target {json.dumps(op["v"])}')
                        else:
                            outb.write_target(op['v'])
                    elif k == 'stale':
                        # a control loop delivers an output it calculated before (it may have lost control meanwhile)
                        name = f'ctl{op["c"] % shape["nctl"]}'
                        sim.count('c18.stale-controller-output')
                        out.update_target(name, op['v'])
                    elif k == 'ctlpair':
                        sim.count('c18.concurrent-takeover')
                        n1, n2 = f'ctl{op["c"] % shape["nctl"]}', f'ctl{op["c2"] % shape["nctl"]}'
                        cl2 = nodeworld.RawClient(world)
                        r2 = []

                        def other():
                            r = cl2.request(f'change {n2}:target {json.dumps(op["v2"])}', timeout=60)
                            r2.append(None if r is None else r[2].raw.decode('latin-1')[:200])
                        th2 = threading.Thread(target=other, name='client2')
                        th2.start()
                        reply = wire(f'change {n1}:target {json.dumps(op["v"])}')
                        th2.join()
                        cl2.close()
                        reply = f'{reply} || {r2[0] if r2 else None}'
                    elif k == 'ctl':
                        name = f'ctl{op["c"] % shape["nctl"]}'
                        if who == 'wire':
                            reply = wire(f'change {name}:target {json.dumps(op["v"])}')
                        else:
                            srv.secnode.modules[name].write_target(op['v'])
                    else:
                        if who == 'wire':
                            reply = wire(f'change out:target {json.dumps(op["v"])}')
                        else:
                            out.write_target(op['v'])
            except Exception as e:   # noqa
                exc = f'{type(e).__name__}: {e}'[:200]
            if side is not None:
                side.join()
            time.sleep(0.05)
            hw['fail'] = None
            hw['switch_fail'] = None
            steps.append({'op': op, 'before': before, 'after': snapshot(), 'reply': reply, 'exc': exc,
                          'also_done': side is not None, 'hw_st': hw_before,
                          'xlog': list(hw.get('xlog', ()))})
            hw['xlog'] = []
        churn_stop[0] = True
        for th in churners:
            th.join()
        cl.close()
        srv.secnode.shutdown_modules()

    # ------------------------------------------------------------------ oracle
    def observation(self, sim, case, ctx):
        return [(s['op'], s['after'], s['reply'], s['exc']) for s in ctx.get('steps', ())]

    def nontrivial(self, sim, case, ctx):
        groups = {o['group'] for o in case['ops']}
        return len(case['ops']) >= 4 and len(groups) >= 2

    def judge(self, sim, case, ctx):
        res = []
        shape = case['shape']
        vdict = ctx['vdict']
        cnt = sim.counters
        for k, s in enumerate(ctx['steps']):
            op, a, b = s['op'], s['after'], s['before']
            what = f'step {k} {op["who"]} {op["group"]}/{op["kind"]}'
            accepted = s['exc'] is None and (s['reply'] is None or not s['reply'].startswith('error_'))
            # struct and members agree member by member
            for m in shape['members']:
                if abs(a['st'].get(m, float('nan')) - a['mem'][m]) > 1e-9:
                    res.append(Violation('C18.struct-member-mismatch',
                                         f'{"combined" if shape["struct_rw"] else "members"}|{op["kind"]}|{op["who"]}',
                                         f'{what}: struct value {a["st"]} but member st_{m} = {a["mem"][m]} '
                                         f'(op {op}, reply {s["reply"]}, exc {s["exc"]})'))
                    return res
            # a member / struct write leaves the other members alone
            if op['group'] == 'struct' and accepted and op['kind'] in ('struct', 'member') and not s.get('also_done'):
                want = dict(b['st'])
                if op['kind'] == 'struct':
                    want.update(op['v'])
                else:
                    want[op['m']] = op['mv']
                written = set(op['v']) if op['kind'] == 'struct' else {op['m']}
                # (a member not written may also have been refreshed by the poller with the value the hardware held
                # before this operation)
                if any(abs(want[m] - a['st'].get(m, float('nan'))) > 1e-9 and
                       (m in written or abs(s['hw_st'][m] - a['st'].get(m, float('nan'))) > 1e-9)
                       for m in shape['members']):
                    res.append(Violation('C18.struct-write-result', f'{"combined" if shape["struct_rw"] else "members"}|{op["kind"]}',
                                         f'{what}: struct was {b["st"]}, operation {op}, expected {want}, holds {a["st"]}'))
                    return res
            # float value belongs to the current index (judged once the pair has been touched)
            touched = any((st['op']['group'] == 'fe' and st['op']['kind'] in ('float', 'index') and st['exc'] is None and
                           not (st['reply'] or '').startswith('error_')) or
                          (st.get('also_done') and st['op']['also']['kind'] == 'idx')
                          for st in ctx['steps'][:k + 1])
            if touched and abs(a['fe'] - vdict[a['idx']]) > 1e-12 * max(1, abs(a['fe'])):
                res.append(Violation('C18.float-index-mismatch', op['kind'],
                                     f'{what}: fe = {a["fe"]} but fe_idx = {a["idx"]} -> {vdict[a["idx"]]}'))
                return res
            hwmax = shape.get('fe_hw_max')
            if op['group'] == 'fe' and op['kind'] == 'float' and accepted and not s.get('also_done'):
                best = min(abs(v - op['v']) for v in vdict.values())
                closest = min(vdict, key=lambda i: abs(vdict[i] - op['v']))
                if hwmax is not None and closest > hwmax:
                    # the hardware took another range than the closest one: the index says which
                    if a['idx'] != hwmax:
                        res.append(Violation('C18.not-closest-value', 'hardware-choice',
                                             f'{what}: wrote {op["v"]}, the hardware takes at most index {hwmax}, holds {a["idx"]}'))
                        return res
                elif abs(abs(vdict[a['idx']] - op['v']) - best) > 1e-12 * max(1.0, best):
                    res.append(Violation('C18.not-closest-value', 'write',
                                         f'{what}: wrote {op["v"]}, selected {vdict[a["idx"]]} (index {a["idx"]}), allowed '
                                         f'values {sorted(vdict.values())}'))
                    return res
            if op['group'] == 'fe' and op['kind'] == 'index' and accepted and not s.get('also_done') and \
                    a['idx'] != (op['i'] if hwmax is None or op['who'] != 'wire' else min(op['i'], hwmax)):
                res.append(Violation('C18.index-write-lost', 'index', f'{what}: wrote index {op["i"]}, holds {a["idx"]}'))
                return res
            # limits
            for (value, lims) in s['xlog']:
                lo, hi = lims
                if not (lo <= value <= hi):
                    res.append(Violation('C18.outside-limits-accepted', shape['limits'],
                                         f'{what}: x = {value} reached the driver with limits {lims}'))
                    return res
            if op['group'] == 'limit' and op['kind'] == 'lim' and shape['limits'] == 'limits' and op['lo'] > op['hi'] \
                    and accepted and tuple(a['lims']) == (op['lo'], op['hi']):
                res.append(Violation('C18.inverted-limits-accepted', op['who'],
                                     f'{what}: x_limits = [{op["lo"]}, {op["hi"]}] accepted (reply {s["reply"]})'))
                return res
            # the second output: its controller is marked active exactly when the output names it
            if a.get('controlled_by_b') is not None:
                if a['active_b'] != (a['controlled_by_b'] == 'ctlb') or a['controlled_by_b'] not in ('self', 'ctlb'):
                    res.append(Violation('C18.controlled-by-mismatch', 'second-output',
                                         f'{what}: second output says controlled_by = {a["controlled_by_b"]}, its '
                                         f'controller is {"active" if a["active_b"] else "not active"}'))
                    return res
                if op['group'] == 'control' and op['kind'] not in ('ctlb', 'outb') and \
                        (a['active_b'], a['controlled_by_b']) != (b['active_b'], b['controlled_by_b']):
                    res.append(Violation('C18.controlled-by-mismatch', 'other-output-disturbed',
                                         f'{what}: an operation on the first output changed the control state of the '
                                         f'second one from {b["active_b"]}/{b["controlled_by_b"]} to '
                                         f'{a["active_b"]}/{a["controlled_by_b"]}'))
                    return res
            # control hand-over
            nact = sum(a['active'])
            if nact > 1:
                res.append(Violation('C18.two-controllers-active', 'control', f'{what}: control_active = {a["active"]}'))
                return res
            if nact == 1:
                who = f'ctl{a["active"].index(True)}'
                if a['controlled_by'] != who:
                    res.append(Violation('C18.controlled-by-mismatch', 'controller',
                                         f'{what}: {who} is active but the output says controlled_by = {a["controlled_by"]}'))
                    return res
            elif a['controlled_by'] not in ('self',):
                res.append(Violation('C18.controlled-by-mismatch', 'nobody',
                                     f'{what}: no controller active but controlled_by = {a["controlled_by"]}'))
                return res
            if op['group'] == 'control' and op['kind'] in ('ctlb', 'outb'):
                if (a['active'], a['controlled_by']) != (b['active'], b['controlled_by']):
                    res.append(Violation('C18.controlled-by-mismatch', 'other-output-disturbed',
                                         f'{what}: an operation on the second output changed the control state of the '
                                         f'first one from {b["active"]}/{b["controlled_by"]} to {a["active"]}/{a["controlled_by"]}'))
                    return res
            elif op['group'] == 'control' and op['kind'] == 'ctlpair':
                # whoever came last is in control - exactly one of the two (the rules above), and the output has its value
                winners = [(op['c'] % shape['nctl'], op['v']), (op['c2'] % shape['nctl'], op['v2'])]
                if 'error_' not in (s['reply'] or '') and not any(a['active'][i] and abs(a['out_target'] - v) < 1e-9 for i, v in winners):
                    res.append(Violation('C18.takeover-failed', 'concurrent',
                                         f'{what}: after two concurrent hand-overs to ctl{winners[0][0]} and ctl{winners[1][0]} '
                                         f'control_active = {a["active"]}, controlled_by = {a["controlled_by"]}, output target '
                                         f'{a["out_target"]} (requested {winners})'))
                    return res
            elif op['group'] == 'control' and accepted:
                if op['kind'] == 'ctl':
                    me = op['c'] % shape['nctl']
                    if not a['active'][me]:
                        res.append(Violation('C18.takeover-failed', 'not-active', f'{what}: ctl{me} not active after its target was set'))
                        return res
                    if any(b['active'][i] for i in range(shape['nctl']) if i != me):
                        cnt['c18.takeover'] = cnt.get('c18.takeover', 0) + 1
                    if abs(a['out_target'] - op['v']) > 1e-9:
                        res.append(Violation('C18.takeover-failed', 'target', f'{what}: output target {a["out_target"]}'))
                        return res
                elif op['kind'] == 'stale':
                    # the output of a loop which is not (or no longer) in control changes nobody's control state
                    if a['active'] != b['active'] or a['controlled_by'] != b['controlled_by']:
                        res.append(Violation('C18.controlled-by-mismatch', 'stale-output',
                                             f'{what}: control state was {b["active"]} / {b["controlled_by"]}, is '
                                             f'{a["active"]} / {a["controlled_by"]}'))
                        return res
                elif nact:
                    res.append(Violation('C18.takeover-failed', 'output-self', f'{what}: output set directly, but {a["active"]}'))
                    return res
        return res


CHECK = C18()
